import AidlVerif.Props.LexerLang

/-!
# The backtracking matcher is sound for the regular language of its expression — stars included

`Matches r w`: the usual declarative semantics of regular expressions (the regular language of
`r`). `m_sound`: whenever the continuation-passing matcher `m` succeeds, it has consumed a prefix
`w` of its input with `Matches r w` and handed the rest to the continuation; `matchAt_sound`,
`findFrom_sound`: the same for an anchored match and for a leftmost search (the reported byte
positions are the UTF-8 lengths of the pieces, hence character boundaries).
`next_token_matches`: the text of EVERY token `Matcher::next` returns is a word of the regular
language of the lexer entry that produced it (all entries, not only the star-free ones).

Nothing is assumed about `fuel`: soundness holds for every bound.
-/

namespace Aidl.Props.RegexSound
open Aidl.Regex Aidl.Lexer Aidl.Javadoc Aidl.Props.JavadocTotal Aidl.Props.LexerBounds Aidl.Props.LexerProgress
  Aidl.Props.LexerLang

inductive Matches : Re → List Char → Prop
  | eps : Matches .eps []
  | cls (rs : List (Nat × Nat)) (c : Char) : inCls rs c = true → Matches (.cls rs) [c]
  | seq (a b : Re) (u v : List Char) : Matches a u → Matches b v → Matches (.seq a b) (u ++ v)
  | altL (a b : Re) (u : List Char) : Matches a u → Matches (.alt a b) u
  | altR (a b : Re) (u : List Char) : Matches b u → Matches (.alt a b) u
  | starNil (a : Re) : Matches (.star a) []
  | starCons (a : Re) (u v : List Char) : Matches a u → Matches (.star a) v → Matches (.star a) (u ++ v)

/-- what a successful run of a matcher `f` with continuation `k` means -/
def SoundFor (r : Re) (f : List Char → Nat → K → Option Nat) : Prop :=
  ∀ (s : List Char) (p : Nat) (k : K) (e : Nat), f s p k = some e →
    ∃ w s', s = w ++ s' ∧ Matches r w ∧ k s' (p + utf8Len w) = some e

theorem starLoop_sound (a : Re) (body : List Char → Nat → K → Option Nat) (hb : SoundFor a body) (k : K) :
    ∀ (n : Nat) (s : List Char) (p e : Nat), starLoop body k n s p = some e →
      ∃ w s', s = w ++ s' ∧ Matches (.star a) w ∧ k s' (p + utf8Len w) = some e := by
  intro n
  induction n with
  | zero =>
    intro s p e h
    simp only [starLoop] at h
    exact ⟨[], s, rfl, .starNil a, by simpa [utf8Len_nil] using h⟩
  | succ n ih =>
    intro s p e h
    simp only [starLoop] at h
    split at h
    · rename_i r hr
      cases h
      obtain ⟨u, s1, hs1, hu, hk⟩ := hb s p _ _ hr
      split at hk
      · obtain ⟨v, s2, hs2, hv, hk2⟩ := ih s1 _ _ hk
        refine ⟨u ++ v, s2, by rw [hs1, hs2]; simp, .starCons a u v hu hv, ?_⟩
        rw [utf8Len_append, ← Nat.add_assoc]; exact hk2
      · cases hk
    · exact ⟨[], s, rfl, .starNil a, by simpa [utf8Len_nil] using h⟩

theorem m_sound (r : Re) : ∀ (fuel : Nat), SoundFor r (m r fuel) := by
  induction r with
  | eps =>
    intro fuel s p k e h
    exact ⟨[], s, rfl, .eps, by simpa [m, utf8Len_nil] using h⟩
  | cls rs =>
    intro fuel s p k e h
    cases s with
    | nil => simp [m] at h
    | cons c s' =>
      simp only [m] at h
      split at h
      · rename_i hin
        refine ⟨[c], s', rfl, .cls rs c hin, ?_⟩
        rw [utf8Len_cons, utf8Len_nil]; simpa using h
      · cases h
  | seq x y ihx ihy =>
    intro fuel s p k e h
    simp only [m] at h
    obtain ⟨u, s1, hs1, hu, h1⟩ := ihx fuel s p _ e h
    obtain ⟨v, s2, hs2, hv, h2⟩ := ihy fuel s1 _ k e h1
    refine ⟨u ++ v, s2, by rw [hs1, hs2]; simp, .seq x y u v hu hv, ?_⟩
    rw [utf8Len_append, ← Nat.add_assoc]; exact h2
  | alt x y ihx ihy =>
    intro fuel s p k e h
    simp only [m] at h
    split at h
    · rename_i r' ha
      cases h
      obtain ⟨w, s', hs', hw, hk⟩ := ihx fuel s p k _ ha
      exact ⟨w, s', hs', .altL x y w hw, hk⟩
    · obtain ⟨w, s', hs', hw, hk⟩ := ihy fuel s p k e h
      exact ⟨w, s', hs', .altR x y w hw, hk⟩
  | star a ih =>
    intro fuel s p k e h
    simp only [m] at h
    exact starLoop_sound a (m a fuel) (ih fuel) k fuel s p e h

/-- **an anchored match consumed a word of the regular language** -/
theorem matchAt_sound (r : Re) (fuel : Nat) (s : List Char) (p e : Nat) (h : matchAt r fuel s p = some e) :
    ∃ w s', s = w ++ s' ∧ Matches r w ∧ e = p + utf8Len w := by
  unfold matchAt at h
  obtain ⟨w, s', hs', hw, hk⟩ := m_sound r fuel s p _ e h
  exact ⟨w, s', hs', hw, by simpa using hk.symm⟩

/-- **a leftmost search found a word of the regular language**, and its byte positions are the
    UTF-8 lengths of the text before it and of the word -/
theorem findFrom_sound (r : Re) (fuel : Nat) : ∀ (s : List Char) (p a b : Nat), findFrom r fuel s p = some (a, b) →
    ∃ pre w post, s = pre ++ w ++ post ∧ Matches r w ∧ a = p + utf8Len pre ∧ b = a + utf8Len w := by
  intro s
  induction s with
  | nil =>
    intro p a b h
    simp only [findFrom, Option.map_eq_some_iff, Prod.mk.injEq] at h
    obtain ⟨e, he, rfl, rfl⟩ := h
    obtain ⟨w, s', hs', hw, he⟩ := matchAt_sound r fuel [] p e he
    exact ⟨[], w, s', by simpa using hs', hw, by simp [utf8Len_nil], he⟩
  | cons c cs ih =>
    intro p a b h
    simp only [findFrom] at h
    split at h
    · rename_i e he
      simp only [Option.some.injEq, Prod.mk.injEq] at h
      obtain ⟨rfl, rfl⟩ := h
      obtain ⟨w, s', hs', hw, he⟩ := matchAt_sound r fuel (c :: cs) p e he
      exact ⟨[], w, s', by simpa using hs', hw, by simp [utf8Len_nil], he⟩
    · obtain ⟨pre, w, post, hs, hw, ha, hb⟩ := ih _ a b h
      refine ⟨c :: pre, w, post, by rw [hs]; simp, hw, ?_, hb⟩
      rw [utf8Len_cons]; omega

/-- every class of the expression only admits characters with `P` -/
def clsAll (P : Char → Prop) : Re → Prop
  | .eps => True
  | .cls rs => ∀ c, inCls rs c = true → P c
  | .seq a b => clsAll P a ∧ clsAll P b
  | .alt a b => clsAll P a ∧ clsAll P b
  | .star a => clsAll P a

/-- every character of a word of the language lies in one of the classes of the expression -/
theorem Matches.all_chars (P : Char → Prop) {r : Re} {w : List Char} (h : Matches r w) :
    clsAll P r → ∀ c ∈ w, P c := by
  induction h with
  | eps => intro _ c hc; cases hc
  | cls rs c hin =>
    intro hP d hd
    simp only [List.mem_cons, List.not_mem_nil, or_false] at hd
    subst hd
    exact hP d hin
  | seq a b u v _ _ iha ihb =>
    intro hP c hc
    rcases List.mem_append.mp hc with h | h
    · exact iha hP.1 c h
    · exact ihb hP.2 c h
  | altL a b u _ ih => intro hP; exact ih hP.1
  | altR a b u _ ih => intro hP; exact ih hP.2
  | starNil a => intro _ c hc; cases hc
  | starCons a u v _ _ iha ihs =>
    intro hP c hc
    rcases List.mem_append.mp hc with h | h
    · exact iha hP c h
    · exact ihs hP c h

/-- **the text of every token is a word of the regular language of its lexer entry** -/
theorem next_token_matches (table : LexTable) (fuel : Nat) (s : List Char) (p : Nat) (t : Token) (rest : List Char)
    (h : next table fuel s p = .token t rest) :
    ∃ tok, Matches table[t.index]!.1 tok ∧ t.text = String.ofList tok := by
  obtain ⟨f1, s1, p1, tok, hm, hs1, ht⟩ := next_token_match table fuel s p t rest h
  obtain ⟨w, s', hs', hw, he⟩ := matchAt_sound _ f1 s1 p1 _ hm
  have : tok = w := prefix_inj tok w rest s' (by rw [← hs1, ← hs']) (by omega)
  subst this
  exact ⟨tok, hw, ht⟩

end Aidl.Props.RegexSound

/-! ## Completeness: the matcher finds a match whenever the regular language has one

If some word `w` of the language of `r` is a prefix of the input and the continuation succeeds after it,
the matcher succeeds (with a possibly different word: it returns the leftmost-first one) — provided the
bound on `star` iterations is at least the length of `w`. Together with soundness:
`matchAt r fuel s p = none` exactly when no prefix of `s` is a word of the language. -/

namespace Aidl.Props.RegexSound
open Aidl.Regex Aidl.Javadoc Aidl.Props.JavadocTotal Aidl.Props.LexerBounds Aidl.Props.LexerProgress

/-- what completeness means for one expression and one word -/
def CompleteFor (r : Re) (w : List Char) : Prop :=
  ∀ (fuel : Nat) (s' : List Char) (p : Nat) (k : K) (e : Nat), w.length ≤ fuel →
    k s' (p + utf8Len w) = some e → ∃ e', m r fuel (w ++ s') p k = some e'

/-- the same for the loop of `star`, with independent bounds for the body and the iteration count -/
def LoopCompleteFor (a : Re) (w : List Char) : Prop :=
  ∀ (bf n : Nat) (s' : List Char) (p : Nat) (k : K) (e : Nat), w.length ≤ n → w.length ≤ bf →
    k s' (p + utf8Len w) = some e → ∃ e', starLoop (m a bf) k n (w ++ s') p = some e'

theorem starLoop_nil_complete (body : List Char → Nat → K → Option Nat) (k : K) (n : Nat) (s : List Char) (p e : Nat)
    (h : k s p = some e) : ∃ e', starLoop body k n s p = some e' := by
  cases n with
  | zero => exact ⟨e, by simpa [starLoop] using h⟩
  | succ n =>
    simp only [starLoop]
    split
    · exact ⟨_, rfl⟩
    · exact ⟨e, h⟩

theorem m_complete {r : Re} {w : List Char} (h : Matches r w) :
    CompleteFor r w ∧ (∀ a, r = .star a → LoopCompleteFor a w) := by
  induction h with
  | eps =>
    refine ⟨?_, fun a ha => by cases ha⟩
    intro fuel s' p k e _ hk
    exact ⟨e, by simpa [m, utf8Len_nil] using hk⟩
  | cls rs c hin =>
    refine ⟨?_, fun a ha => by cases ha⟩
    intro fuel s' p k e _ hk
    refine ⟨e, ?_⟩
    simp only [List.cons_append, List.nil_append, m, hin, if_true]
    rw [utf8Len_cons, utf8Len_nil] at hk
    simpa using hk
  | seq a b u v _ _ iha ihb =>
    refine ⟨?_, fun a' ha => by cases ha⟩
    intro fuel s' p k e hlen hk
    rw [List.length_append] at hlen
    obtain ⟨e2, h2⟩ := ihb.1 fuel s' (p + utf8Len u) k e (by omega) (by rw [utf8Len_append, ← Nat.add_assoc] at hk; exact hk)
    obtain ⟨e1, h1⟩ := iha.1 fuel (v ++ s') p (fun s1 p1 => m b fuel s1 p1 k) e2 (by omega) h2
    exact ⟨e1, by simpa [m, List.append_assoc] using h1⟩
  | altL a b u _ ih =>
    refine ⟨?_, fun a' ha => by cases ha⟩
    intro fuel s' p k e hlen hk
    obtain ⟨e1, h1⟩ := ih.1 fuel s' p k e hlen hk
    exact ⟨e1, by simp [m, h1]⟩
  | altR a b u _ ih =>
    refine ⟨?_, fun a' ha => by cases ha⟩
    intro fuel s' p k e hlen hk
    obtain ⟨e1, h1⟩ := ih.1 fuel s' p k e hlen hk
    simp only [m]
    split
    · exact ⟨_, rfl⟩
    · exact ⟨e1, h1⟩
  | starNil a =>
    have hl : LoopCompleteFor a [] := by
      intro bf n s' p k e _ _ hk
      rw [utf8Len_nil, Nat.add_zero] at hk
      exact starLoop_nil_complete _ k n _ p e hk
    refine ⟨?_, fun a' ha => by cases ha; exact hl⟩
    intro fuel s' p k e hlen hk
    simp only [m]
    exact hl fuel fuel s' p k e hlen hlen hk
  | starCons a u v _ _ ihu ihv =>
    have hl : LoopCompleteFor a (u ++ v) := by
      intro bf n s' p k e hn hbf hk
      have hv := ihv.2 a rfl
      by_cases hu : u = []
      · subst hu
        simpa using hv bf n s' p k e (by simpa using hn) (by simpa using hbf) (by simpa using hk)
      · have hupos : 0 < utf8Len u := by
          cases u with
          | nil => exact absurd rfl hu
          | cons c cs => rw [utf8Len_cons]; have := utf8Size_pos c; omega
        have hulen : 0 < u.length := List.length_pos_iff.mpr hu
        rw [List.length_append] at hn hbf
        cases n with
        | zero => omega
        | succ n =>
          simp only [starLoop]
          obtain ⟨e2, h2⟩ := hv bf n s' (p + utf8Len u) k e (by omega) (by omega)
            (by rw [utf8Len_append, ← Nat.add_assoc] at hk; exact hk)
          obtain ⟨e1, h1⟩ := ihu.1 bf (v ++ s') p
            (fun s1 p1 => if p < p1 then starLoop (m a bf) k n s1 p1 else none) e2 (by omega)
            (by simp only [show p < p + utf8Len u by omega, if_true]; exact h2)
          rw [List.append_assoc, h1]
          exact ⟨e1, rfl⟩
    refine ⟨?_, fun a' ha => by cases ha; exact hl⟩
    intro fuel s' p k e hlen hk
    simp only [m]
    exact hl fuel fuel s' p k e hlen hlen hk

/-- **an anchored match exists whenever a prefix of the input is a word of the language** -/
theorem matchAt_complete (r : Re) (w s' : List Char) (h : Matches r w) (fuel p : Nat) (hf : w.length ≤ fuel) :
    ∃ e, matchAt r fuel (w ++ s') p = some e := by
  unfold matchAt
  exact (m_complete h).1 fuel s' p _ (p + utf8Len w) hf rfl

/-- **the matcher decides whether a prefix of the input is a word of the language** -/
theorem matchAt_none_iff (r : Re) (fuel : Nat) (s : List Char) (p : Nat) (hf : s.length ≤ fuel) :
    matchAt r fuel s p = none ↔ ∀ w s', s = w ++ s' → ¬ Matches r w := by
  constructor
  · intro hnone w s' hs hw
    subst hs
    obtain ⟨e, he⟩ := matchAt_complete r w s' hw fuel p (by rw [List.length_append] at hf; omega)
    rw [hnone] at he; cases he
  · intro hno
    cases h : matchAt r fuel s p with
    | none => rfl
    | some e =>
      obtain ⟨w, s', hs, hw, _⟩ := matchAt_sound r fuel s p e h
      exact absurd hw (hno w s' hs)

end Aidl.Props.RegexSound
