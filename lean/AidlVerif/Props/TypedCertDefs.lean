import AidlVerif.Props.LrTyped
import AidlVerif.Driver.Parse
import AidlVerif.Gen.Typing

namespace Aidl.Props.LrTyped
open Aidl Aidl.Props.Typed

/-- signatures, symbol types and call ranks of THIS run's generated parser -/
def tt : TyTables := { defs := Gen.actionDefs, sigs := Gen.actionSigs, symTys := Gen.symTys, ranks := Gen.actionRanks, reports := Gen.actionReports }

end Aidl.Props.LrTyped
