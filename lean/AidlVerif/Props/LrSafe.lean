import AidlVerif.Props.LrCert

/-!
# The LR driver never hits one of its own panics — for every input, given the checked certificate

`Chain`: adjacent stack entries are linked by certified transitions. With `Cert.ok` (evaluated by
the kernel on the regenerated tables, `Props/LrSafeCert.lean`) every reduction the tables can
trigger finds exactly its right-hand side on the stack (`reduce_safe`), error recovery keeps the
stack well-formed, and no `unwrap()` of the driver fails.
-/

namespace Aidl.Props.LrSafe
open Aidl Aidl.Lr Aidl.Actions Aidl.Lexer

variable (T : Tables) (C : Cert)

/-- adjacent entries of the stack are linked by certified transitions; the bottom state is 0 -/
inductive Chain : List Nat → List Sym → Prop
  | base : Chain [0] []
  | step {q : Nat} {qs : List Nat} {X : Sym} {t : Nat} {syms : List Sym} :
      Chain (q :: qs) syms → C.hasEdge q X.id t = true → Chain (t :: q :: qs) (X :: syms)

theorem Chain.length {C : Cert} {st : List Nat} {sy : List Sym} (h : Chain C st sy) : st.length = sy.length + 1 := by
  induction h with
  | base => rfl
  | step _ _ ih => simp [ih]

theorem Chain.drop {C : Cert} {st : List Nat} {sy : List Sym} (h : Chain C st sy) :
    ∀ n, n ≤ sy.length → Chain C (st.drop n) (sy.drop n) := by
  induction h with
  | base => intro n hn; have : n = 0 := by simpa using hn
            subst this; exact Chain.base
  | step hc he ih =>
    intro n hn
    cases n with
    | zero => exact Chain.step hc he
    | succ n => simpa using ih n (by simpa using hn)

/-! ### what the certificate gives -/

theorem actionAt_ne_zero {q col : Nat} (h : actionAt T q col ≠ 0) :
    ∃ row, T.action[q]? = some row ∧ q < T.action.size ∧ col < row.size := by
  unfold actionAt at h
  cases hr : T.action[q]? with
  | none => simp [hr] at h
  | some row =>
    refine ⟨row, rfl, ?_, ?_⟩
    · exact (Array.getElem?_eq_some_iff.mp hr).1
    · cases hc : row[col]? with
      | none => simp [hr, hc] at h
      | some a => exact (Array.getElem?_eq_some_iff.mp hc).1

theorem asShift_ne_zero {a : Int} {t : Nat} (h : asShift a = some t) : a ≠ 0 := by
  unfold asShift at h; split at h <;> simp_all; omega
theorem asReduce_ne_zero {a : Int} {p : Nat} (h : asReduce a = some p) : a ≠ 0 := by
  unfold asReduce at h; split at h <;> simp_all; omega

structure CertFacts : Prop where
  ncols_pos : 0 < T.ncols
  shift : ∀ q col t, asShift (actionAt T q col) = some t → C.hasEdge q col t = true
  edge : ∀ q x t, C.hasEdge q x t = true → t ≠ 0 ∧ C.accOf t = x ∧ q ∈ C.predsOf t
  red : ∀ t col p, asReduce (actionAt T t col) = some p → C.redOK T t p = true
  redEof : ∀ t p, asReduce (eofActionAt T t) = some p → C.redOK T t p = true
  redMem : ∀ t col p, asReduce (actionAt T t col) = some p → p ∈ C.redsOf t ∧ t < C.reds.size
  redEofMem : ∀ t p, asReduce (eofActionAt T t) = some p → p ∈ C.redsOf t ∧ t < C.reds.size

theorem actionAt_entry {q col : Nat} (h : actionAt T q col ≠ 0) :
    ∃ row, (row, q) ∈ T.action.toList.zipIdx ∧ (actionAt T q col, col) ∈ row.toList.zipIdx := by
  unfold actionAt at h ⊢
  cases hr : T.action[q]? with
  | none => simp [hr] at h
  | some row =>
    cases hc : row[col]? with
    | none => simp [hr, hc] at h
    | some a =>
      refine ⟨row, ?_, ?_⟩
      · exact List.mk_mem_zipIdx_iff_getElem?.mpr (by rw [Array.getElem?_toList]; exact hr)
      · simp only [Option.bind, hc, Option.getD]
        exact List.mk_mem_zipIdx_iff_getElem?.mpr (by rw [Array.getElem?_toList]; exact hc)

theorem certFacts (h : C.ok T = true) : CertFacts T C := by
  unfold Cert.ok at h
  simp only [Bool.and_eq_true, decide_eq_true_eq] at h
  obtain ⟨⟨⟨⟨hpos, hrows⟩, heof⟩, hedges⟩, hreds⟩ := h
  have hred : ∀ t p, (C.redsOf t).contains p = true → C.redOK T t p = true := by
    intro t p hc
    have hmem : p ∈ C.redsOf t := by simpa using hc
    have ht : t < C.reds.size := by
      unfold Cert.redsOf at hmem
      cases hs : C.reds[t]? with
      | none => simp [hs] at hmem
      | some l => exact (Array.getElem?_eq_some_iff.mp hs).1
    unfold Cert.redsOK at hreds
    have := (List.all_eq_true.mp hreds) t (List.mem_range.mpr ht)
    exact (List.all_eq_true.mp this) p hmem
  have hentry : ∀ q col, actionAt T q col ≠ 0 →
      C.shiftOK q col (actionAt T q col) = true ∧ C.actOK q (actionAt T q col) = true := by
    intro q col hne
    obtain ⟨row, h1, h2⟩ := actionAt_entry T hne
    unfold Cert.rowsOK at hrows
    have := (List.all_eq_true.mp hrows) (row, q) h1
    have := (List.all_eq_true.mp this) (actionAt T q col, col) h2
    simpa only [Bool.and_eq_true] using this
  have hsize : ∀ t p, p ∈ C.redsOf t → t < C.reds.size := by
    intro t p hmem
    unfold Cert.redsOf at hmem
    cases hs : C.reds[t]? with
    | none => simp [hs] at hmem
    | some l => exact (Array.getElem?_eq_some_iff.mp hs).1
  have hmemA : ∀ t col p, asReduce (actionAt T t col) = some p → p ∈ C.redsOf t := by
    intro t col p hr
    have := (hentry t col (asReduce_ne_zero hr)).2
    unfold Cert.actOK at this
    simpa [hr] using this
  have hmemE : ∀ t p, asReduce (eofActionAt T t) = some p → p ∈ C.redsOf t := by
    intro t p hr
    have hne := asReduce_ne_zero hr
    unfold eofActionAt at hne hr
    cases he : T.eof[t]? with
    | none => simp [he] at hne
    | some a =>
      have hmem : (a, t) ∈ T.eof.toList.zipIdx :=
        List.mk_mem_zipIdx_iff_getElem?.mpr (by rw [Array.getElem?_toList]; exact he)
      unfold Cert.eofOK at heof
      have := (List.all_eq_true.mp heof) (a, t) hmem
      simp only [he, Option.getD] at hr
      unfold Cert.actOK at this
      simpa [hr] using this
  refine ⟨hpos, ?_, ?_, ?_, ?_, fun t col p hr => ⟨hmemA t col p hr, hsize t p (hmemA t col p hr)⟩,
    fun t p hr => ⟨hmemE t p hr, hsize t p (hmemE t p hr)⟩⟩
  · intro q col t hs
    have := (hentry q col (asShift_ne_zero hs)).1
    unfold Cert.shiftOK at this
    simpa [hs] using this
  · intro q x t he
    unfold Cert.hasEdge at he
    have hmem : (x, t) ∈ C.succOf q := by simpa using he
    have hq : q < C.succ.size := by
      unfold Cert.succOf at hmem
      cases hs : C.succ[q]? with
      | none => simp [hs] at hmem
      | some l => exact (Array.getElem?_eq_some_iff.mp hs).1
    unfold Cert.edgesOK at hedges
    have := (List.all_eq_true.mp hedges) q (List.mem_range.mpr hq)
    have := (List.all_eq_true.mp this) (x, t) hmem
    simp only [Bool.and_eq_true, bne_iff_ne, ne_eq, beq_iff_eq, List.contains_eq_mem, decide_eq_true_eq] at this
    exact ⟨this.1.1, this.1.2, this.2⟩
  · intro t col p hr
    have := (hentry t col (asReduce_ne_zero hr)).2
    unfold Cert.actOK at this
    exact hred t p (by simpa [hr] using this)
  · intro t p hr
    have hne := asReduce_ne_zero hr
    unfold eofActionAt at hne hr
    cases he : T.eof[t]? with
    | none => simp [he] at hne
    | some a =>
      have hmem : (a, t) ∈ T.eof.toList.zipIdx :=
        List.mk_mem_zipIdx_iff_getElem?.mpr (by rw [Array.getElem?_toList]; exact he)
      unfold Cert.eofOK at heof
      have := (List.all_eq_true.mp heof) (a, t) hmem
      simp only [he, Option.getD] at hr
      unfold Cert.actOK at this
      exact hred t p (by simpa [hr] using this)

/-! ### walking back from a state over a right-hand side -/

theorem backWalk_sound (F : CertFacts T C) :
    ∀ (rev : List Nat) (qs : List Nat) (t : Nat) (st : List Nat) (sy : List Sym) (q0s : List Nat),
      Chain C (t :: st) sy → t ∈ qs → C.backWalk qs rev = some q0s →
      rev.length ≤ sy.length ∧ (sy.take rev.length).map (·.id) = rev
      ∧ ∃ q0 rest, (t :: st).drop rev.length = q0 :: rest ∧ q0 ∈ q0s := by
  intro rev
  induction rev with
  | nil =>
    intro qs t st sy q0s _ ht hb
    simp only [Cert.backWalk, Option.some.injEq] at hb
    subst hb
    exact ⟨Nat.zero_le _, by simp, t, st, rfl, ht⟩
  | cons x rest ih =>
    intro qs t st sy q0s hc ht hb
    simp only [Cert.backWalk] at hb
    split at hb
    · rename_i hall
      have hq := (List.all_eq_true.mp hall) t ht
      simp only [Bool.and_eq_true, bne_iff_ne, ne_eq, beq_iff_eq] at hq
      obtain ⟨ht0, hacc⟩ := hq
      cases hc with
      | base => exact absurd rfl ht0
      | step hc' he =>
        rename_i q qs' X syms
        obtain ⟨_, hax, hpred⟩ := F.edge q X.id t he
        have hX : X.id = x := by rw [← hax, hacc]
        have hmem : q ∈ Cert.dedup (qs.flatMap C.predsOf) :=
          (Cert.mem_dedup q _).mpr (List.mem_flatMap.mpr ⟨t, ht, hpred⟩)
        obtain ⟨h1, h2, q0, r, h3, h4⟩ := ih _ q qs' syms q0s hc' hmem hb
        refine ⟨by simpa using h1, ?_, q0, r, ?_, h4⟩
        · simp only [List.length_cons, List.take_succ_cons, List.map_cons, hX, h2]
        · simpa using h3
    · cases hb

/-! ### `reduce` -/

/-- no panic of the driver itself -/
def DriverOk : Outcome → Prop
  | .panic _ => False
  | _ => True

theorem reverse_take_map_eq {l : List Sym} {ids : List Nat} (h : (l.take ids.length).map (·.id) = ids.reverse) :
    ((l.take ids.length).reverse).map (·.id) = ids := by
  rw [List.map_reverse, h, List.reverse_reverse]

theorem reduce_safe (F : CertFacts T C) (env : Env) (s : St) (t : Nat) (st : List Nat) (p : Nat) (la : Option Nat)
    (hst : s.states = t :: st) (hc : Chain C s.states s.syms) (hred : C.redOK T t p = true) :
    ∃ prod, T.prods[p]? = some prod ∧ prod.rhs.length ≤ s.syms.length
      ∧ (((s.syms.take prod.rhs.length).reverse).map (·.id) = prod.rhsIds ∧ prod.rhs.length = prod.rhsIds.length)
      ∧ reduce T env s p la = reduceCore T env s prod la
      ∧ (∀ s' o, reduce T env s p la = (s', some o) → DriverOk o)
      ∧ (∀ s', reduce T env s p la = (s', none) → Chain C s'.states s'.syms) := by
  unfold Cert.redOK at hred
  cases hp : T.prods[p]? with
  | none => simp [hp] at hred
  | some prod =>
    simp only [hp, Bool.and_eq_true, beq_iff_eq] at hred
    obtain ⟨⟨hlen1, hlen2⟩, hbw⟩ := hred
    cases hb : C.backWalk [t] prod.rhsIds.reverse with
    | none => simp [hb] at hbw
    | some q0s =>
      simp only [hb] at hbw
      rw [hst] at hc
      obtain ⟨h1, h2, q0, r, h3, h4⟩ := backWalk_sound T C F _ [t] t st s.syms q0s hc (by simp) hb
      simp only [List.length_reverse] at h1 h2 h3
      have hk : ¬ s.syms.length < prod.rhs.length := by omega
      have hids : ¬ (((s.syms.take prod.rhs.length).reverse).map (·.id) != prod.rhsIds) = true := by
        rw [hlen1]
        have := reverse_take_map_eq (l := s.syms) (ids := prod.rhsIds) h2
        simp [this]
      have heq : reduce T env s p la = reduceCore T env s prod la := by
        unfold reduce
        simp only [hp, hk, hids, if_false, Bool.false_eq_true]
      refine ⟨prod, rfl, by omega, ⟨by rw [hlen1]; exact reverse_take_map_eq h2, hlen1⟩, heq, ?_, ?_⟩
      all_goals rw [heq]; unfold reduceCore; dsimp only
      · intro s' o h
        split at h
        · cases h; trivial
        · unfold reducePush at h
          dsimp only at h
          split at h
          · cases h; trivial
          · split at h
            · rename_i hlt
              exfalso
              have := hc.length
              rw [hst] at hlt
              simp only [List.length_cons] at hlt this
              omega
            · cases h
      · intro s' h
        split at h
        · cases h
        · unfold reducePush at h
          dsimp only at h
          split at h
          · cases h
          · rename_i hacc
            split at h
            · cases h
            · cases h
              dsimp only
              rw [hst, hlen2, ← hlen1]
              have hdrop := hc.drop prod.rhs.length (by omega)
              rw [hlen1] at hdrop ⊢
              rw [h3] at hdrop ⊢
              simp only [List.headD_cons]
              refine Chain.step hdrop ?_
              have hacc' : prod.accept = false := by simpa using hacc
              simp only [hacc', Bool.false_eq_true, if_false] at hbw
              exact (List.all_eq_true.mp hbw) q0 h4


/-- a chain whose top state is 0 is the empty stack -/
theorem Chain.bottom (F : CertFacts T C) {st : List Nat} {sy : List Sym} (h : Chain C (0 :: st) sy) : st = [] ∧ sy = [] := by
  cases h with
  | base => exact ⟨rfl, rfl⟩
  | step hc he => exact absurd rfl (F.edge _ _ _ he).1

/-- the accepting reduction pops the whole stack -/
theorem accept_empties (F : CertFacts T C) (s : St) (t : Nat) (st : List Nat) (p : Nat) (prod : Production)
    (hst : s.states = t :: st) (hc : Chain C s.states s.syms) (hred : C.redOK T t p = true)
    (hp : T.prods[p]? = some prod) (hacc : prod.accept = true) : s.syms.drop prod.rhs.length = [] := by
  unfold Cert.redOK at hred
  simp only [hp, Bool.and_eq_true, beq_iff_eq] at hred
  obtain ⟨⟨hlen1, _⟩, hbw⟩ := hred
  cases hb : C.backWalk [t] prod.rhsIds.reverse with
  | none => simp [hb] at hbw
  | some q0s =>
    simp only [hb, hacc, if_true] at hbw
    rw [hst] at hc
    obtain ⟨h1, _, q0, r, h3, h4⟩ := backWalk_sound T C F _ [t] t st s.syms q0s hc (by simp) hb
    simp only [List.length_reverse] at h1 h3
    have hq0 : q0 = 0 := by simpa using (List.all_eq_true.mp hbw) q0 h4
    subst hq0
    have hdrop := hc.drop prod.rhsIds.length (by omega)
    rw [h3] at hdrop
    rw [hlen1]
    exact (Chain.bottom T C F hdrop).2

end Aidl.Props.LrSafe
