import AidlVerif.Props.ParseTerm
import AidlVerif.Props.C01
import AidlVerif.Props.C17
import AidlVerif.Props.DiagCtx

/-!
# C01 end to end (model): for every set of texts, parsing and validating returns

`addContent_total`: the parse stage returns a result for every text. `tree_arities`: the generic
types of every tree it returns have the arities `check_container` of validation.rs indexes into —
the hypothesis `ArityOK` of `C01.validate_no_panic` — because every `Type` node is built by one of the
ten type actions of the grammar (typing invariant `HasTy … .ty`). Hence `validate` returns for the
results of the model's `add_content`, for every set of files, every hash order.
-/

namespace Aidl.Props.PipelineTotal
open Aidl Aidl.Lr Aidl.Actions Aidl.Props.Typed Aidl.Props.LrInv Aidl.Spec Aidl.Spec.C17

theorem tyArity_imp (t : Ty) (h : tyArity t = true) : C01.arityOk t = true := by
  unfold tyArity at h
  unfold C01.arityOk
  cases hk : t.kind <;> simp only [hk] at h ⊢ <;> first | exact h | rfl

theorem itemWF_arityOK (a : AidlFile) (h : ItemWF a.item) : C01.ArityOK a := by
  intro t ht
  apply tyArity_imp
  unfold allTypesWalk topTypes at ht
  obtain ⟨top, htop, htw⟩ := List.mem_flatMap.mp ht
  cases hi : a.item with
  | interface i =>
    rw [hi] at htop h
    obtain ⟨e, he, het⟩ := List.mem_flatMap.mp htop
    exact h e he top het t htw
  | parcelable p =>
    rw [hi] at htop h
    obtain ⟨e, he, het⟩ := List.mem_flatMap.mp htop
    exact h e he top het t htw
  | «enum» e =>
    rw [hi] at htop
    cases htop

/-- the types of a tree with `ItemWF` carry no `Resolved` kind, at any depth -/
theorem itemWF_unresolved (a : AidlFile) (h : ItemWF a.item) (t : Ty) (ht : t ∈ allTypesPre a) (k : String) (rk : RKind) :
    t.kind ≠ .resolved k rk := by
  have ht := mem_allTypesWalk_of_pre a t ht
  unfold allTypesWalk topTypes at ht
  obtain ⟨top, htop, htw⟩ := List.mem_flatMap.mp ht
  have hA : tyArity t = true := by
    cases hi : a.item with
    | interface i =>
      rw [hi] at htop h
      obtain ⟨e, he, het⟩ := List.mem_flatMap.mp htop
      exact h e he top het t htw
    | parcelable p =>
      rw [hi] at htop h
      obtain ⟨e, he, het⟩ := List.mem_flatMap.mp htop
      exact h e he top het t htw
    | «enum» e =>
      rw [hi] at htop
      cases htop
  intro hk
  unfold tyArity at hA
  rw [hk] at hA
  cases hA

/-- **For every text**: no type of a tree the parser returns is `Resolved` — the hypothesis
    `hparser` of `C17.resolved_to_item` holds of every parser output. -/
theorem parser_never_resolves (env : Env) (id text : String) (hE : EnvOk env text.toList) (fr : FileResult) (a : AidlFile)
    (h : addContentE Driver.Parse.tables env id text = .ok fr) (ha : fr.ast = some a) :
    ∀ t ∈ allTypesPre a, ∀ k rk, t.kind ≠ .resolved k rk :=
  fun t ht k rk => itemWF_unresolved a (ParseTyped.tree_arities env id text hE fr a h ha) t ht k rk

/-- **Parsing then validating never panics (model, tables of this run)**: for every list of files
    whose entries are results of the model's `add_content` on ANY texts (with a line/column lookup
    defined on the character boundaries), and every hash order, `validate` returns. -/
theorem parse_then_validate_total (ho : HashOrder) (frs : List FileResult)
    (h : ∀ fr ∈ frs, ∃ env id text, EnvOk env text.toList ∧ addContentE Driver.Parse.tables env id text = .ok fr) :
    ∃ r, validate ho frs = .ok r := by
  refine C01.validate_no_panic ho frs ?_
  intro fr hfr a ha
  obtain ⟨env, id, text, hE, hp⟩ := h fr hfr
  exact itemWF_arityOK a (ParseTyped.tree_arities env id text hE fr a hp ha)

/-- **C17 without a hypothesis on the tree**: in the validation of a tree the parser returned for
    ANY text, a type node whose kind is an item kind with key `k` comes with a file of the project
    whose key is `k` and whose item symbol has that qualified name. -/
theorem resolved_to_item_of_parsed (ho : HashOrder) (files : List FileResult)
    (env : Env) (id text : String) (hE : EnvOk env text.toList) (fr0 : FileResult) (ast : AidlFile)
    (hparse : addContentE Driver.Parse.tables env id text = .ok fr0) (hast : fr0.ast = some ast)
    (syn : List Diag) (g : Groups)
    (hg : validateGroups ho (collectItemKeys (ho.ord files)) syn ast = .ok g)
    (n : String × Range × TypeKind) (hn : n ∈ Spec.C05.nodes g.ast) (k : String) (rk : RKind)
    (hkind : n.2.2 = .resolved k rk) (hitem : isItemKind rk = true) :
    ∃ fr ∈ files, ∃ a, fr.ast = some a ∧ a.key = k ∧ (itemSymbol a).qualifiedName = some k :=
  C17.resolved_to_item ho files syn ast g hg
    (fun t ht => Or.inr (parser_never_resolves env id text hE fr0 ast hparse hast t ht)) n hn k rk hkind hitem

/-- the diagnostics of every parser output carry syntax-stage context messages -/
theorem parsed_synCtx (env : Env) (id text : String) (hE : EnvOk env text.toList) (fr : FileResult)
    (h : addContentE Driver.Parse.tables env id text = .ok fr) : DiagCtx.CtxIn DiagCtx.synCtxs fr.diags := by
  intro d hd
  have := (ParseTotal.diag_positions_good env id text hE fr h d hd).2.2
  simp only [synCtx, Bool.or_eq_true, beq_iff_eq] at this
  simp only [DiagCtx.synCtxs, List.mem_cons, List.not_mem_nil, or_false]
  rcases this with (((h1 | h1) | h1) | h1) | h1 <;> simp [h1]

/-- **C05 without `Fresh`**: for a file parsed from ANY text, validated in any project and hash
    order, every type reference carries the kind the scoping rule prescribes, each unresolved one
    has exactly one 'unknown type' Error on its name, and there is no other such Error. -/
theorem C05_holds_of_parsed (ho : HashOrder) (defined : Defined) (fr out : FileResult)
    (hp : ∃ env id text, EnvOk env text.toList ∧ addContentE Driver.Parse.tables env id text = .ok fr)
    (h : validateFile ho defined fr = .ok out) : Spec.C05.holdsFile defined fr out = true := by
  obtain ⟨env, id, text, hE, hfr⟩ := hp
  exact Props.C05.holds ho defined fr out h
    (fun ast g _ hg => DiagCtx.fresh_C05 hg (parsed_synCtx env id text hE fr hfr))

/-- **C08 without `Fresh`**: likewise the container diagnostics are exactly what the element rules
    call for on the validated tree. -/
theorem C08_holds_of_parsed (ho : HashOrder) (defined : Defined) (fr out : FileResult)
    (hp : ∃ env id text, EnvOk env text.toList ∧ addContentE Driver.Parse.tables env id text = .ok fr)
    (h : validateFile ho defined fr = .ok out) : Spec.C08.holdsFile out = true := by
  obtain ⟨env, id, text, hE, hfr⟩ := hp
  exact Props.C08.holds ho defined fr out h
    (fun ast g _ hg => DiagCtx.fresh_C08 hg (parsed_synCtx env id text hE fr hfr))

/-- …and such results exist for every text (`addContent_total`) -/
theorem every_text_has_a_result (env : Env) (id text : String) (hE : EnvOk env text.toList) :
    ∃ fr, addContentE Driver.Parse.tables env id text = .ok fr := ParseTerm.addContent_total env id text hE

end Aidl.Props.PipelineTotal
