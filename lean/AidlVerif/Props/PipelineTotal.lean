import AidlVerif.Props.ParseTerm
import AidlVerif.Props.C01

/-!
# C01 end to end (model): for every set of texts, parsing and validating returns

`addContent_total`: the parse stage returns a result for every text. `tree_arities`: the generic
types of every tree it returns have the arities `check_container` of validation.rs indexes into —
the hypothesis `ArityOK` of `C01.validate_no_panic` — because every `Type` node is built by one of the
ten type actions of the grammar (typing invariant `HasTy … .ty`). Hence `validate` returns for the
results of the model's `add_content`, for every set of files, every hash order.
-/

namespace Aidl.Props.PipelineTotal
open Aidl Aidl.Lr Aidl.Actions Aidl.Props.Typed Aidl.Props.LrInv

theorem tyArity_eq (t : Ty) : tyArity t = C01.arityOk t := by
  unfold tyArity C01.arityOk
  cases t.kind <;> rfl

theorem itemWF_arityOK (a : AidlFile) (h : ItemWF a.item) : C01.ArityOK a := by
  intro t ht
  rw [← tyArity_eq]
  unfold allTypesWalk topTypes at ht
  obtain ⟨top, htop, htw⟩ := List.mem_flatMap.mp ht
  cases hi : a.item with
  | interface i =>
    rw [hi] at htop h
    obtain ⟨e, he, het⟩ := List.mem_flatMap.mp htop
    exact h e he top het t htw
  | parcelable p =>
    rw [hi] at htop h
    obtain ⟨e, he, het⟩ := List.mem_flatMap.mp htop
    exact h e he top het t htw
  | «enum» e =>
    rw [hi] at htop
    cases htop

/-- **Parsing then validating never panics (model, tables of this run)**: for every list of files
    whose entries are results of the model's `add_content` on ANY texts (with a line/column lookup
    defined on the character boundaries), and every hash order, `validate` returns. -/
theorem parse_then_validate_total (ho : HashOrder) (frs : List FileResult)
    (h : ∀ fr ∈ frs, ∃ env id text, EnvOk env text.toList ∧ addContentE Driver.Parse.tables env id text = .ok fr) :
    ∃ r, validate ho frs = .ok r := by
  refine C01.validate_no_panic ho frs ?_
  intro fr hfr a ha
  obtain ⟨env, id, text, hE, hp⟩ := h fr hfr
  exact itemWF_arityOK a (ParseTyped.tree_arities env id text hE fr a hp ha)

/-- …and such results exist for every text (`addContent_total`) -/
theorem every_text_has_a_result (env : Env) (id text : String) (hE : EnvOk env text.toList) :
    ∃ fr, addContentE Driver.Parse.tables env id text = .ok fr := ParseTerm.addContent_total env id text hE

end Aidl.Props.PipelineTotal
