import AidlVerif.Props.LexTokens

/-!
# Integers, `-` and `.` — where the number entries overlap

Two entries of the table can begin with an ASCII digit: INTEGER and one other (FLOAT, found in the table as "the
other entry that can begin with a digit"); FLOAT can also begin with a sign or a dot. What the lexer returns there
depends on what follows, and these theorems say how — for every text, from THIS run's table:

* `next_integer`: a maximal run of ASCII digits that is not followed by a character FLOAT could use is ONE INTEGER
  token (both entries match the run; the tie goes to the later entry, which `numberEntries_ok` checks is INTEGER);
* `deriv` / `deriv_sound`: the Brzozowski derivative of an expression by a character, and its soundness;
  `second_sound`: the second character of a word is in `firstCls` of the derivative;
* `next_after_char`: a single-character entry `j` whose character `c` only one other entry `o` can begin with
  yields the one-character token whenever the next character cannot continue a word of `o` that begins with `c`
  (it is not in `firstCls (deriv o c)`, and `deriv o c` does not match the empty word) — `-` not followed by a
  digit or dot, `.` not followed by a digit (`minusDot_ok`).
-/

namespace Aidl.Props.LexNumbers
open Aidl.Regex Aidl.Lexer Aidl.Javadoc Aidl.Props.JavadocTotal Aidl.Props.LexerBounds Aidl.Props.LexerProgress
  Aidl.Props.RegexSound Aidl.Props.JavadocSpec Aidl.Props.SkipEntries Aidl.Props.LexSkip Aidl.Props.LexerFuel Aidl.Props.LexIdent
  Aidl.Props.LexTokens

/-! ### INTEGER -/

def intIdx : Nat := Gen.lexTable.toList.idxOf (intRe, false)

theorem intIdx_entry : intIdx < Gen.lexTable.size ∧ Gen.lexTable[intIdx]! = (intRe, false) := by decide

/-- the other entry that can begin with an ASCII digit -/
def floatIdx : Nat :=
  ((List.range Gen.lexTable.size).filter fun i => i != intIdx && !disjointCls digitCls (firstCls Gen.lexTable[i]!.1)).headD 0

/-- every class of an expression, concatenated -/
def clsOf : Re → List (Nat × Nat)
  | .eps => []
  | .cls rs => rs
  | .seq a b => clsOf a ++ clsOf b
  | .alt a b => clsOf a ++ clsOf b
  | .star a => clsOf a

/-- the characters the other number entry can use -/
def floatChars : List (Nat × Nat) := clsOf Gen.lexTable[floatIdx]!.1

/-- kernel evaluation over this run's table: only INTEGER and one earlier entry can begin with an ASCII digit;
    that entry only uses `floatChars`, which include the ASCII digits -/
def numberEntries : Bool :=
  decide (floatIdx < intIdx) && clsInside floatChars Gen.lexTable[floatIdx]!.1 && rangesSub digitCls floatChars &&
    (List.range Gen.lexTable.size).all fun i => i == intIdx || i == floatIdx || disjointCls digitCls (firstCls Gen.lexTable[i]!.1)

theorem numberEntries_ok : numberEntries = true := by decide +kernel

/-- **A run of ASCII digits is one INTEGER token** when it is not followed by a character the other number entry
    could use (another digit of any script, a sign, a dot, `f`): for every text, wherever it stands. -/
theorem next_integer (fuel : Nat) (c : Char) (t rest : List Char) (p : Nat)
    (hc : isDigit c = true) (ht : ∀ d ∈ t, isDigit d = true)
    (hout : ∀ d u, rest = d :: u → inCls floatChars d = false) (hf : (c :: t ++ rest).length ≤ fuel) :
    next Gen.lexTable (fuel + 1) (c :: t ++ rest) p
      = .token { start := p, index := intIdx, text := String.ofList (c :: t), stop := p + utf8Len (c :: t) } rest := by
  have hcert := numberEntries_ok
  unfold numberEntries at hcert
  simp only [Bool.and_eq_true, decide_eq_true_eq] at hcert
  obtain ⟨⟨⟨hlt, hinside⟩, hsub⟩, hall⟩ := hcert
  have hLpos : 0 < utf8Len (c :: t) := by rw [utf8Len_cons]; have := utf8Size_pos c; omega
  have hc' : inCls digitCls c = true := hc
  have houtD : ∀ d u, rest = d :: u → isDigit d = false := by
    intro d u h
    cases hd : isDigit d with
    | false => rfl
    | true =>
      have := rangesSub_sound _ _ hsub d hd
      rw [hout d u h] at this; cases this
  have hlenw : (c :: t).length < fuel + 1 := by
    have : (c :: t ++ rest).length = (c :: t).length + rest.length := List.length_append
    omega
  -- INTEGER matches the run
  have hint : Full Gen.lexTable (fuel + 1) (c :: t ++ rest) p (utf8Len (c :: t)) intIdx := by
    unfold Full
    rw [intIdx_entry.2, List.cons_append, matchAt_int (fuel + 1) c (t ++ rest) p (by simp only [List.cons_append, List.length_cons] at hf; omega),
      if_pos hc', takeWhile_run isDigit t rest ht houtD, utf8Len_cons]
    congr 1; omega
  -- what the entries other than the two number entries do at a digit
  have hother : ∀ i, i ≠ intIdx → i ≠ floatIdx → ∀ e, matchAt Gen.lexTable[i]!.1 (fuel + 1) (c :: t ++ rest) p = some e → e = p := by
    intro i h1 h2 e he
    by_cases hi : i < Gen.lexTable.size
    · have := List.all_eq_true.mp hall i (List.mem_range.mpr hi)
      simp only [Bool.or_eq_true, beq_iff_eq] at this
      rcases this with (h | h) | h
      · exact absurd h h1
      · exact absurd h h2
      · exact matchAt_outside _ _ c (t ++ rest) p e (disjoint_sound _ _ h c hc) he
    · rw [default_entry i hi] at he; cases he; rfl
  -- the other number entry sees the run alone
  have hfloat : ∀ e, matchAt Gen.lexTable[floatIdx]!.1 (fuel + 1) (c :: t ++ rest) p = some e → e ≤ p + utf8Len (c :: t) := by
    intro e he
    have hallc := clsInside_sound floatChars _ hinside
    have hrest : ∀ d u, rest = d :: u → ¬ (inCls floatChars d = true) := fun d u h => by
      rw [hout d u h]; exact Bool.false_ne_true
    rw [matchAt_local _ _ hallc (fuel + 1) (c :: t) rest p hrest] at he
    cases hm : matchAt Gen.lexTable[floatIdx]!.1 (fuel + 1) (c :: t) 0 with
    | none => rw [hm] at he; cases he
    | some e0 =>
      rw [hm] at he
      simp only [Option.map_some, Option.some.injEq] at he
      obtain ⟨w, s', hs, _, he0⟩ := matchAt_sound _ _ _ 0 e0 hm
      have : utf8Len (c :: t) = utf8Len w + utf8Len s' := by rw [hs, utf8Len_append]
      omega
  have hle : ∀ (i e : Nat), matchAt Gen.lexTable[i]!.1 (fuel + 1) (c :: t ++ rest) p = some e → e ≤ p + utf8Len (c :: t) := by
    intro i e he
    by_cases h1 : i = intIdx
    · subst h1; unfold Full at hint; rw [hint] at he; cases he; exact Nat.le_refl _
    · by_cases h2 : i = floatIdx
      · subst h2; exact hfloat e he
      · have := hother i h1 h2 e he; omega
  obtain ⟨j, hj, hbest, hjfull, hmax⟩ := bestMatch_max Gen.lexTable (fuel + 1) (c :: t ++ rest) p (utf8Len (c :: t)) intIdx
    intIdx_entry.1 hLpos hint hle
  have hji : j = intIdx := by
    have h1 := hmax intIdx intIdx_entry.1 hint
    by_cases hjf : j = floatIdx
    · omega
    · by_cases hji : j = intIdx
      · exact hji
      · have := hother j hji hjf _ hjfull; omega
  have hshape : c :: t ++ rest = c :: (t ++ rest) := rfl
  rw [hshape, next]
  case x_4 => intro h; cases h
  rw [← hshape, hbest, hji]
  simp only
  rw [intIdx_entry.2]
  simp only [Bool.false_eq_true, if_false]
  rw [LexSkip.splitBytes_prefix]

/-! ### derivatives: what can follow the first character of a word -/

def deriv : Re → Char → Re
  | .eps, _ => .cls []
  | .cls rs, c => if inCls rs c then .eps else .cls []
  | .seq a b, c => if LexSkip.nullable a then .alt (.seq (deriv a c) b) (deriv b c) else .seq (deriv a c) b
  | .alt a b, c => .alt (deriv a c) (deriv b c)
  | .star a, c => .seq (deriv a c) (.star a)

theorem deriv_sound {r : Re} {w : List Char} (h : Matches r w) : ∀ c t, w = c :: t → Matches (deriv r c) t := by
  induction h with
  | eps => intro c t h; cases h
  | cls rs d hd =>
    intro c t h
    cases h
    simp only [deriv, hd, if_true]
    exact Matches.eps
  | seq a b u v hu hv iha ihb =>
    intro c t h
    cases u with
    | nil =>
      have hnull := matches_nil_nullable hu rfl
      simp only [deriv, hnull, if_true]
      exact Matches.altR _ _ _ (ihb c t (by simpa using h))
    | cons x y =>
      have hx : x = c ∧ y ++ v = t := by simpa using h
      obtain ⟨rfl, rfl⟩ := hx
      have hd := Matches.seq _ b y v (iha x y rfl) hv
      simp only [deriv]
      split
      · exact Matches.altL _ _ _ hd
      · exact hd
  | altL a b u _ ih => intro c t h; exact Matches.altL _ _ _ (ih c t h)
  | altR a b u _ ih => intro c t h; exact Matches.altR _ _ _ (ih c t h)
  | starNil a => intro c t h; cases h
  | starCons a u v hu hv iha ihv =>
    intro c t h
    cases u with
    | nil => exact ihv c t (by simpa using h)
    | cons x y =>
      have hx : x = c ∧ y ++ v = t := by simpa using h
      obtain ⟨rfl, rfl⟩ := hx
      exact Matches.seq _ _ y v (iha x y rfl) hv

/-- a word of at least two characters: the second is in `firstCls` of the derivative by the first;
    a word of one character: the derivative matches the empty word -/
theorem second_sound {r : Re} {c : Char} {t : List Char} (h : Matches r (c :: t)) :
    (t = [] → LexSkip.nullable (deriv r c) = true) ∧ (∀ d u, t = d :: u → inCls (firstCls (deriv r c)) d = true) :=
  ⟨fun ht => matches_nil_nullable (deriv_sound h c t rfl) ht, fun d u ht => first_sound (deriv_sound h c t rfl) d u ht⟩

/-- an entry matches nothing at `c :: s` when `s` cannot continue a word that begins with `c` -/
theorem matchAt_none_after (r : Re) (f : Nat) (c : Char) (s : List Char) (p : Nat)
    (hnn : LexSkip.nullable r = false) (hnd : LexSkip.nullable (deriv r c) = false)
    (hs : ∀ d u, s = d :: u → inCls (firstCls (deriv r c)) d = false) :
    matchAt r f (c :: s) p = none := by
  cases hm : matchAt r f (c :: s) p with
  | none => rfl
  | some e =>
    exfalso
    obtain ⟨w, s', hws, hw, _⟩ := matchAt_sound r f _ p e hm
    cases w with
    | nil => have := matches_nil_nullable hw rfl; rw [hnn] at this; cases this
    | cons x t =>
      have hx : c = x ∧ s = t ++ s' := by simpa using hws
      obtain ⟨rfl, hst⟩ := hx
      obtain ⟨h1, h2⟩ := second_sound hw
      cases t with
      | nil => have := h1 rfl; rw [hnd] at this; cases this
      | cons d u =>
        have := h2 d u rfl
        rw [hs d (u ++ s') (by rw [hst]; rfl)] at this; cases this

/-- the single-character entries whose character exactly one other entry `o` can begin with, and `o` is not
    nullable and has no one-character word beginning with it: (entry, code point, other entry) -/
def sharedEntries : List (Nat × Nat × Nat) :=
  (List.range Gen.lexTable.size).flatMap fun j =>
    match Gen.lexTable[j]! with
    | (.cls [(a, b)], false) =>
      (List.range Gen.lexTable.size).filterMap fun o =>
        if a = b ∧ (Char.ofNat a).toNat = a ∧ o ≠ j ∧ LexSkip.nullable Gen.lexTable[o]!.1 = false ∧
            LexSkip.nullable (deriv Gen.lexTable[o]!.1 (Char.ofNat a)) = false ∧
            ((List.range Gen.lexTable.size).all fun i => i == j || i == o || disjointCls [(a, a)] (firstCls Gen.lexTable[i]!.1)) = true
        then some (j, a, o) else none
    | _ => []

theorem shared_facts (j a o : Nat) (h : (j, a, o) ∈ sharedEntries) :
    j < Gen.lexTable.size ∧ Gen.lexTable[j]! = (.cls [(a, a)], false) ∧ (Char.ofNat a).toNat = a ∧ o ≠ j ∧
      LexSkip.nullable Gen.lexTable[o]!.1 = false ∧ LexSkip.nullable (deriv Gen.lexTable[o]!.1 (Char.ofNat a)) = false ∧
      ((List.range Gen.lexTable.size).all fun i => i == j || i == o || disjointCls [(a, a)] (firstCls Gen.lexTable[i]!.1)) = true := by
  unfold sharedEntries at h
  rw [List.mem_flatMap] at h
  obtain ⟨j', hj', hval⟩ := h
  have hlt := List.mem_range.mp hj'
  split at hval
  · rename_i a' b' heq
    rw [List.mem_filterMap] at hval
    obtain ⟨o', _, hval⟩ := hval
    split at hval
    · rename_i hc
      simp only [Option.some.injEq, Prod.mk.injEq] at hval
      obtain ⟨rfl, rfl, rfl⟩ := hval
      obtain ⟨rfl, h2, h3, h4, h5, h6⟩ := hc
      exact ⟨hlt, heq, h2, h3, h4, h5, h6⟩
    · cases hval
  · cases hval

/-- **`-` and `.` as tokens of their own**: a character that a number could begin with is the one-character token
    whenever what follows cannot continue a number that begins with it. -/
theorem next_after_char (j a o : Nat) (h : (j, a, o) ∈ sharedEntries) (fuel : Nat) (rest : List Char) (p : Nat)
    (hrest : ∀ d u, rest = d :: u → inCls (firstCls (deriv Gen.lexTable[o]!.1 (Char.ofNat a))) d = false) :
    next Gen.lexTable (fuel + 1) (Char.ofNat a :: rest) p
      = .token { start := p, index := j, text := String.ofList [Char.ofNat a], stop := p + (Char.ofNat a).utf8Size } rest := by
  obtain ⟨hj, hent, hval, hoj, hnn, hnd, hall⟩ := shared_facts j a o h
  have hin : inCls [(a, a)] (Char.ofNat a) = true := by
    unfold inCls
    simp only [List.any_cons, List.any_nil, Bool.or_false, Bool.and_eq_true, decide_eq_true_eq]
    omega
  have hm : matchAt Gen.lexTable[j]!.1 (fuel + 1) ([Char.ofNat a] ++ rest) p = some (p + utf8Len [Char.ofNat a]) := by
    rw [hent]
    unfold matchAt
    simp only [List.cons_append, List.nil_append, m, hin, if_true, utf8Len_cons, utf8Len_nil, Nat.add_zero]
  have := next_unique Gen.lexTable fuel [Char.ofNat a] rest p j hj (by rw [hent]) (by simp) hm
    (fun i hne => by
      simp only [List.cons_append, List.nil_append]
      by_cases hio : i = o
      · subst hio
        exact Or.inl (matchAt_none_after _ _ _ rest p hnn hnd hrest)
      · by_cases hi : i < Gen.lexTable.size
        · have := List.all_eq_true.mp hall i (List.mem_range.mpr hi)
          simp only [Bool.or_eq_true, beq_iff_eq] at this
          rcases this with (h' | h') | h'
          · exact absurd h' hne
          · exact absurd h' hio
          · have hout := disjoint_sound _ _ h' _ hin
            cases hm' : matchAt Gen.lexTable[i]!.1 (fuel + 1) (Char.ofNat a :: rest) p with
            | none => exact Or.inl rfl
            | some e => exact Or.inr (by rw [matchAt_outside _ _ _ rest p e hout hm'])
        · exact Or.inr (default_entry i hi _ _ p))
  simp only [List.cons_append, List.nil_append, utf8Len_cons, utf8Len_nil, Nat.add_zero] at this
  exact this

/-! ### non-vacuity: `-` and `.` of this run's table -/

/-- the characters that can follow `c` in a word of entry `o` -/
def followOf (o : Nat) (c : Char) : List (Nat × Nat) := firstCls (deriv Gen.lexTable[o]!.1 c)

example : (Gen.lexTable.toList.idxOf (Re.cls [(45, 45)], false), '-'.toNat, floatIdx) ∈ sharedEntries := by decide +kernel
example : (Gen.lexTable.toList.idxOf (Re.cls [(46, 46)], false), '.'.toNat, floatIdx) ∈ sharedEntries := by decide +kernel
-- after `.` a number needs a digit: a letter (a qualified name `a.b`), `*` or a blank cannot follow
example : disjointCls identStartCls (followOf floatIdx '.') = true ∧ disjointCls wsCls (followOf floatIdx '.') = true := by decide +kernel
-- after `-` a number needs a digit or a dot
example : disjointCls identStartCls (followOf floatIdx '-') = true ∧ disjointCls wsCls (followOf floatIdx '-') = true := by decide +kernel
example : inCls floatChars 'f' = true ∧ inCls floatChars ';' = false ∧ inCls floatChars ' ' = false := by decide +kernel

end Aidl.Props.LexNumbers
