import AidlVerif.Driver.Parse
import AidlVerif.Spec.ParseLevel

/-!
# Certificates over the tables regenerated from the generated parser, and lexer lemmas

Shared by the parse-level properties (C01–C04, C14, C18). Everything here is re-checked by the
kernel against the tables of THIS run (`decide +kernel` evaluates, it adds no axiom).
-/

namespace Aidl.Props.Parser
open Aidl Aidl.Actions Aidl.Lexer Aidl.Regex

/-! ### the hand-written action models are the actions of the generated parser -/

def userPinned : Bool := Gen.actionDefs.toList.all fun d => match d with
  | .user _ h => (printToLabel.lookup h).isSome
  | _ => true

set_option maxRecDepth 100000 in
/-- **Pinned equality**: every action of the regenerated parser that carries text of
    `aidl.lalrpop` has the print (parameter list, return type, body) of an action modelled by hand
    in `Model/Actions.lean`. Any edit of an action's text breaks this theorem. -/
theorem userActions_pinned : userPinned = true := by decide +kernel

/-! ### table consistency -/

def nstates : Nat := Gen.actionTable.size
def nprods : Nat := Gen.productions.size

def tablesInRange : Bool :=
  -- ACTION: rows have the declared width; shifts and reductions index inside the tables
  Gen.actionTable.toList.all (fun row => row.size == Gen.ncols &&
    row.toList.all fun a => a < (nstates + 1 : Nat) ∧ -(nprods : Int) ≤ a + 0 ∧ a ≥ -(nprods : Int))
  -- EOF actions: a reduction inside the table, or the error action
  && Gen.eofAction.size == nstates
  && Gen.eofAction.toList.all (fun a => a ≤ 0 ∧ a ≥ -(nprods : Int))
  -- GOTO targets are states
  && Gen.gotoTable.all (fun e => e.2.1 < nstates && e.2.2.all fun c => c.1 < nstates && c.2 < nstates)
  -- every reduction pops exactly its right-hand side; exactly one production accepts
  && Gen.productions.toList.all (fun p => p.pops == p.rhs.length && p.action < Gen.actionDefs.size)
  && (Gen.productions.toList.filter (·.accept)).length == 1
  -- one ACTION column per terminal plus the error column; lexer entries map to distinct columns
  && Gen.terminals.size + 1 == Gen.ncols
  && Gen.tokToCol.all (fun e => e.1 < Gen.lexTable.size && e.2 < Gen.terminals.size)
  && (Gen.tokToCol.map (·.1)).eraseDups.length == Gen.tokToCol.length

set_option maxRecDepth 100000 in
theorem tables_in_range : tablesInRange = true := by decide +kernel

/-- arities: every production hands its action as many arguments as the action takes
    (two bare locations for an empty production) -/
def aritiesAgree : Bool :=
  Gen.productions.toList.all fun p =>
    let expected := if p.rhs.isEmpty then 2 else p.rhs.length
    match Gen.actionDefs[p.action]? with
    | some (.composite n _) => n == expected
    | some (.prim n _) => n == expected
    | some (.user n _) => n == expected
    | none => false

set_option maxRecDepth 100000 in
theorem arities_agree : aritiesAgree = true := by decide +kernel

/-! ### lexer -/

/-- a literal matches itself as a prefix of any input, whatever follows -/
theorem lit_prefix (w rest : List Char) (fuel p : Nat) (k : K) :
    m (w.foldr (fun c acc => .seq (Re.chr c) acc) .eps) fuel (w ++ rest) p k
      = k rest (w.foldl (fun n c => n + c.utf8Size) p) := by
  induction w generalizing p with
  | nil => simp [m]
  | cons c w ih =>
    simp only [List.foldr_cons, List.cons_append, m, Re.chr, inCls, List.any_cons, List.any_nil,
      Nat.le_refl, Bool.and_self, Bool.or_false, if_true, List.foldl_cons]
    exact ih _

/-- index of the IDENT entry of the lexer table: the entry `[A-Z_a-z][0-9A-Z_a-z]*` -/
def identIndex : Nat := 2

theorem identIndex_is_ident :
    (Gen.lexTable[identIndex]?).map (·.1)
      = some (Re.seqs [.cls [(65, 90), (95, 95), (97, 122)], .star (.cls [(48, 57), (65, 90), (95, 95), (97, 122)])]) := by
  decide +kernel

def wordLexesAsNonIdent (w : List Char) : Bool :=
  match bestMatch Gen.lexTable (w.length + 1) w 0 with
  | some (len, i) => len == w.length && i != identIndex
  | none => false

set_option maxRecDepth 100000 in
/-- **Every keyword and every reserved word, written alone, is lexed in full by an entry other
    than IDENT** (longest match, ties to the later entry) — for the regenerated lexer table. -/
theorem keywords_lex_as_keywords :
    (Spec.PL.keywords ++ Spec.PL.reserved).all (fun w => wordLexesAsNonIdent w.toList) = true := by
  decide +kernel

/-- non-vacuity: an ordinary identifier IS lexed by the IDENT entry -/
example : bestMatch Gen.lexTable 10 "foo".toList 0 = some (3, identIndex) := by decide +kernel

/-- an empty skipped match is an error, never a loop: `next` consumes fuel only on non-empty skips -/
theorem next_zero_fuel (table : LexTable) (s : List Char) (p : Nat) : Lexer.next table 0 s p = .invalid p := rfl

end Aidl.Props.Parser
