import AidlVerif.Props.LrComplete
import AidlVerif.Gen.LrItems
import AidlVerif.Driver.Parse

/-!
The completeness certificate of THIS run's tables — the LR(1) items of every state, `nullable`,
`FIRST` — is accepted by the checker `Items.ok` (kernel evaluation).
-/

namespace Aidl.Props.LrComplete
open Aidl Aidl.Lr

/-- the certificate computed by the translator for the tables of this run -/
def its : Items :=
  { items := Gen.certItems, actRow := Gen.certActRow, eofAct := Gen.certEofAct, nullable := Gen.certNullable
    first := Gen.certFirst, info := Gen.certInfo, prodsOf := Gen.certProdsOf, nstates := Gen.certNStates }

set_option maxRecDepth 1000000 in
theorem its_ok : ok Driver.Parse.tables its = true := by decide +kernel

theorem itemFacts_run : ItemFacts Driver.Parse.tables its := itemFacts _ _ its_ok

end Aidl.Props.LrComplete
