import AidlVerif.Props.ParseLevel

/-!
# C02 — well-formed documents yield a tree that mirrors the source, whatever the layout  (partial)

Proved about the model:
* `userActions_pinned`, `tables_in_range`, `arities_agree` (Parser) — the hand-written action
  models are the actions of THIS generated parser; the tables are internally consistent;
* `flattenOpts_order` (PL) — member lists are the `Some` payloads of the option list in source order;
* `lit_prefix` (Parser) — a literal token entry matches its own text whatever follows;
* `skip_does_not_reach_parser` — text matched by a skip entry (whitespace, comments) produces no
  token: the lexer continues after it, so the token sequence handed to the LR driver is a function
  of the non-skipped matches only;

NOT proved: that EVERY well-formed document yields the mirror tree (LR completeness) and that the
LR driver's control flow never reads locations (parametricity). Both are covered by the exact
correspondence (model parser == implementation, ranges included) and by comparing the
implementation's position-erased tree with the generator's expectation in four layouts per document.
-/

namespace Aidl.Props.C02
open Aidl Aidl.Lexer Aidl.Regex

/-- a non-empty skipped match is consumed and the scan goes on behind it -/
theorem skip_does_not_reach_parser (table : LexTable) (fuel : Nat) (s : List Char) (p len i : Nat)
    (hs : s ≠ []) (hb : bestMatch table (fuel + 1) s p = some (len, i)) (hskip : table[i]!.2 = true) (hlen : len ≠ 0) :
    Lexer.next table (fuel + 1) s p = Lexer.next table fuel (splitBytes len s).2 (p + len) := by
  cases s with
  | nil => exact absurd rfl hs
  | cons c cs =>
    rw [Lexer.next]
    · simp [hb, hskip, hlen]
    · intro h; cases h

end Aidl.Props.C02
