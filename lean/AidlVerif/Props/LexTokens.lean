import AidlVerif.Props.LexWords

/-!
# Punctuation, string literals and annotations — one token each, for every text, from the table alone

`next_unique`: when one non-skipped entry matches a non-empty prefix and no other entry matches anything
non-empty, the lexer returns that prefix as a token of that entry. `othersMissAt j cls`: kernel evaluation over
THIS run's table — no entry but `j` can begin with a character of `cls`. With it:

* `next_punct`: every single-character entry of the table whose character no other entry can begin with
  (`punctEntries`, computed from the table) yields a one-character token, whatever follows;
* `next_string`: `"`, the maximal run of characters other than `"` and line breaks, `"` is ONE string token;
  an unterminated literal is not a token at all (`next_string_open`: InvalidToken at the quote);
* `next_annotation`: `@`, a letter or `_`, and the maximal run of word characters is ONE annotation token.
-/

namespace Aidl.Props.LexTokens
open Aidl.Regex Aidl.Lexer Aidl.Javadoc Aidl.Props.JavadocTotal Aidl.Props.LexerBounds Aidl.Props.LexerProgress
  Aidl.Props.RegexSound Aidl.Props.JavadocSpec Aidl.Props.SkipEntries Aidl.Props.LexSkip Aidl.Props.LexerFuel Aidl.Props.LexIdent

/-- one entry alone matches something non-empty: its match is the token -/
theorem next_unique (table : LexTable) (fuel : Nat) (pre rest : List Char) (p j : Nat) (hj : j < table.size)
    (hns : table[j]!.2 = false) (hpre : pre ≠ [])
    (hm : matchAt table[j]!.1 (fuel + 1) (pre ++ rest) p = some (p + utf8Len pre))
    (hothers : ∀ i, i ≠ j → matchAt table[i]!.1 (fuel + 1) (pre ++ rest) p = none
      ∨ matchAt table[i]!.1 (fuel + 1) (pre ++ rest) p = some p) :
    next table (fuel + 1) (pre ++ rest) p
      = .token { start := p, index := j, text := String.ofList pre, stop := p + utf8Len pre } rest := by
  obtain ⟨c, t, hct⟩ : ∃ c t, pre = c :: t := by
    cases pre with
    | nil => exact absurd rfl hpre
    | cons c t => exact ⟨c, t, rfl⟩
  have hL : 0 < utf8Len pre := by rw [hct, utf8Len_cons]; have := utf8Size_pos c; omega
  have hbest := bestMatch_single table (fuel + 1) (pre ++ rest) p j (utf8Len pre) hj hL hm hothers
  have hshape : pre ++ rest = c :: (t ++ rest) := by rw [hct]; rfl
  rw [hshape, next]
  case x_4 => intro h; cases h
  rw [← hshape, hbest]
  simp only
  rw [hns]
  simp only [Bool.false_eq_true, if_false]
  rw [LexSkip.splitBytes_prefix]

/-- no entry of this run's table but `j` can begin with a character of `cls` -/
def othersMissAt (j : Nat) (cls : List (Nat × Nat)) : Bool :=
  (List.range Gen.lexTable.size).all fun i => i == j || disjointCls cls (firstCls Gen.lexTable[i]!.1)

theorem others_at (j : Nat) (cls : List (Nat × Nat)) (h : othersMissAt j cls = true) (c : Char) (hc : inCls cls c = true)
    (f : Nat) (s : List Char) (p : Nat) (i : Nat) (hne : i ≠ j) :
    matchAt Gen.lexTable[i]!.1 f (c :: s) p = none ∨ matchAt Gen.lexTable[i]!.1 f (c :: s) p = some p := by
  by_cases hi : i < Gen.lexTable.size
  · have hall := List.all_eq_true.mp h i (List.mem_range.mpr hi)
    simp only [Bool.or_eq_true, beq_iff_eq] at hall
    rcases hall with h' | h'
    · exact absurd h' hne
    · have hout := disjoint_sound _ _ h' c hc
      cases hm : matchAt Gen.lexTable[i]!.1 f (c :: s) p with
      | none => exact Or.inl rfl
      | some e => exact Or.inr (by rw [matchAt_outside _ f c s p e hout hm])
  · exact Or.inr (default_entry i hi f (c :: s) p)

/-! ### punctuation -/

/-- the single-character entries of this run's table whose character no other entry can begin with: (entry, code point) -/
def punctEntries : List (Nat × Nat) :=
  (List.range Gen.lexTable.size).filterMap fun j =>
    match Gen.lexTable[j]! with
    | (.cls [(a, b)], false) => if a = b ∧ othersMissAt j [(a, a)] = true then some (j, a) else none
    | _ => none

theorem punct_facts (j a : Nat) (h : (j, a) ∈ punctEntries) :
    j < Gen.lexTable.size ∧ Gen.lexTable[j]! = (.cls [(a, a)], false) ∧ othersMissAt j [(a, a)] = true := by
  unfold punctEntries at h
  rw [List.mem_filterMap] at h
  obtain ⟨j', hj', hval⟩ := h
  have hlt := List.mem_range.mp hj'
  split at hval
  · rename_i a' b' heq
    split at hval
    · rename_i hab
      simp only [Option.some.injEq, Prod.mk.injEq] at hval
      obtain ⟨rfl, rfl⟩ := hval
      obtain ⟨rfl, hmiss⟩ := hab
      exact ⟨hlt, heq, hmiss⟩
    · cases hval
  · cases hval

/-- **a punctuation character is a one-character token**, whatever follows it -/
theorem next_punct (j a : Nat) (h : (j, a) ∈ punctEntries) (c : Char) (hc : c.toNat = a) (fuel : Nat) (rest : List Char) (p : Nat) :
    next Gen.lexTable (fuel + 1) (c :: rest) p
      = .token { start := p, index := j, text := String.ofList [c], stop := p + c.utf8Size } rest := by
  obtain ⟨hj, hent, hmiss⟩ := punct_facts j a h
  have hin : inCls [(a, a)] c = true := by
    unfold inCls
    simp only [List.any_cons, List.any_nil, Bool.or_false, Bool.and_eq_true, decide_eq_true_eq]
    omega
  have hm : matchAt Gen.lexTable[j]!.1 (fuel + 1) ([c] ++ rest) p = some (p + utf8Len [c]) := by
    rw [hent]
    unfold matchAt
    simp only [List.cons_append, List.nil_append, m, hin, if_true, utf8Len_cons, utf8Len_nil, Nat.add_zero]
  have := next_unique Gen.lexTable fuel [c] rest p j hj (by rw [hent]) (by simp) hm
    (fun i hne => others_at j _ hmiss c hin (fuel + 1) rest p i hne)
  simp only [List.cons_append, List.nil_append, utf8Len_cons, utf8Len_nil, Nat.add_zero] at this
  exact this

/-! ### string literals -/

def strIdx : Nat := Gen.lexTable.toList.idxOf (strRe, false)

theorem strIdx_entry : strIdx < Gen.lexTable.size ∧ Gen.lexTable[strIdx]! = (strRe, false) := by decide

theorem othersMissQuote_ok : othersMissAt strIdx quoteCls = true := by decide +kernel

theorem quote_in : inCls quoteCls '"' = true := by decide

/-- **a string literal is one token**: `"`, the maximal run of characters other than `"` and line breaks, `"` -/
theorem next_string (fuel : Nat) (body rest : List Char) (p : Nat) (hbody : ∀ d ∈ body, isStrBody d = true)
    (hf : (body ++ '"' :: rest).length ≤ fuel + 1) :
    next Gen.lexTable (fuel + 1) ('"' :: body ++ '"' :: rest) p
      = .token { start := p, index := strIdx, text := String.ofList ('"' :: body ++ ['"']), stop := p + 1 + utf8Len body + 1 } rest := by
  have hq : isStrBody '"' = false := by decide
  have htw : (body ++ '"' :: rest).takeWhile isStrBody = body :=
    takeWhile_run isStrBody body ('"' :: rest) hbody (fun d u h => by cases h; exact hq)
  have hdw : (body ++ '"' :: rest).dropWhile isStrBody = '"' :: rest := by
    have h1 := @List.takeWhile_append_dropWhile _ isStrBody (body ++ '"' :: rest)
    rw [htw] at h1
    exact List.append_cancel_left h1
  have hsz : ('"' : Char).utf8Size = 1 := by decide
  have hlen : utf8Len ('"' :: body ++ ['"']) = 1 + utf8Len body + 1 := by
    rw [List.cons_append, utf8Len_cons, utf8Len_append, utf8Len_cons, utf8Len_nil, hsz]
    omega
  have hm : matchAt Gen.lexTable[strIdx]!.1 (fuel + 1) (('"' :: body ++ ['"']) ++ rest) p
      = some (p + utf8Len ('"' :: body ++ ['"'])) := by
    rw [strIdx_entry.2]
    have hshape : ('"' :: body ++ ['"']) ++ rest = '"' :: (body ++ '"' :: rest) := by simp
    rw [hshape, matchAt_str (fuel + 1) _ p hf, hdw]
    simp only [if_true, htw, hlen]
    congr 1; omega
  have := next_unique Gen.lexTable fuel ('"' :: body ++ ['"']) rest p strIdx strIdx_entry.1 (by rw [strIdx_entry.2]) (by simp) hm
    (fun i hne => by
      have hshape : ('"' :: body ++ ['"']) ++ rest = '"' :: (body ++ '"' :: rest) := by simp
      rw [hshape]
      exact others_at strIdx _ othersMissQuote_ok '"' quote_in (fuel + 1) _ p i hne)
  have hshape : ('"' :: body ++ ['"']) ++ rest = '"' :: body ++ '"' :: rest := by simp
  rw [hshape, hlen] at this
  rw [this]
  congr 2
  omega

/-! ### annotations -/

def annIdx : Nat := Gen.lexTable.toList.idxOf (annRe, false)

theorem annIdx_entry : annIdx < Gen.lexTable.size ∧ Gen.lexTable[annIdx]! = (annRe, false) := by decide

theorem othersMissAt_ok : othersMissAt annIdx [(64, 64)] = true := by decide +kernel

/-- **an annotation name is one token**: `@`, a letter or `_`, and the maximal run of word characters -/
theorem next_annotation (fuel : Nat) (c : Char) (t rest : List Char) (p : Nat)
    (hc : inCls identStartCls c = true) (ht : ∀ d ∈ t, isIdentPart d = true)
    (hout : ∀ d u, rest = d :: u → isIdentPart d = false) (hf : (t ++ rest).length ≤ fuel + 1) :
    next Gen.lexTable (fuel + 1) ('@' :: c :: t ++ rest) p
      = .token { start := p, index := annIdx, text := String.ofList ('@' :: c :: t), stop := p + 1 + c.utf8Size + utf8Len t } rest := by
  have hat : inCls [(64, 64)] '@' = true := by decide
  have hsz : ('@' : Char).utf8Size = 1 := by decide
  have hlen : utf8Len ('@' :: c :: t) = 1 + c.utf8Size + utf8Len t := by
    rw [utf8Len_cons, utf8Len_cons, hsz]; omega
  have hm : matchAt Gen.lexTable[annIdx]!.1 (fuel + 1) (('@' :: c :: t) ++ rest) p = some (p + utf8Len ('@' :: c :: t)) := by
    rw [annIdx_entry.2]
    have hshape : ('@' :: c :: t) ++ rest = '@' :: c :: (t ++ rest) := rfl
    rw [hshape, matchAt_ann (fuel + 1) c _ p hf, if_pos hc, takeWhile_run isIdentPart t rest ht hout, hlen]
    congr 1; omega
  have := next_unique Gen.lexTable fuel ('@' :: c :: t) rest p annIdx annIdx_entry.1 (by rw [annIdx_entry.2]) (by simp) hm
    (fun i hne => others_at annIdx _ othersMissAt_ok '@' hat (fuel + 1) _ p i hne)
  have hshape : ('@' :: c :: t) ++ rest = '@' :: c :: t ++ rest := rfl
  rw [hshape, hlen] at this
  rw [this]
  congr 2
  omega

/-! ### what is no token at all -/

/-- the best so far is nothing, or an empty match of an entry of the table -/
def GoodE (table : LexTable) (f : Nat) (s : List Char) (p : Nat) (b : Option (Nat × Nat)) : Prop :=
  b = none ∨ ∃ k, b = some (0, k) ∧ k < table.size ∧ matchAt table[k]!.1 f s p = some p

theorem fold_goodE (table : LexTable) (f : Nat) (s : List Char) (p : Nat) :
    ∀ (l : List Nat) (best : Option (Nat × Nat)), (∀ i ∈ l, i < table.size) →
      (∀ i ∈ l, matchAt table[i]!.1 f s p = none ∨ matchAt table[i]!.1 f s p = some p) →
      GoodE table f s p best → GoodE table f s p (l.foldl (stepBest table f s p) best) := by
  intro l
  induction l with
  | nil => intro best _ _ h; exact h
  | cons i l ih =>
    intro best hlt hall hg
    rw [List.foldl_cons]
    apply ih _ (fun j hj => hlt j (List.mem_cons_of_mem _ hj)) (fun j hj => hall j (List.mem_cons_of_mem _ hj))
    unfold stepBest
    rcases hall i List.mem_cons_self with h0 | h0
    · rw [h0]; exact hg
    · rw [h0]
      have hpp : p - p = 0 := by omega
      have hi := hlt i List.mem_cons_self
      rcases hg with hg | ⟨k, hg, _, _⟩
      · subst hg; exact Or.inr ⟨i, by simp [hpp], hi, h0⟩
      · subst hg; exact Or.inr ⟨i, by simp [hpp], hi, h0⟩

/-- every entry of this run's table that matches the empty word is skipped (kernel evaluation over the table) -/
def nullableSkipped : Bool :=
  (List.range Gen.lexTable.size).all fun i => !LexSkip.nullable Gen.lexTable[i]!.1 || Gen.lexTable[i]!.2

theorem nullableSkipped_ok : nullableSkipped = true := by decide +kernel

/-- **where no entry matches anything non-empty there is no token**: the lexer reports `InvalidToken` there -/
theorem next_invalid (fuel : Nat) (c : Char) (s : List Char) (p : Nat)
    (hall : ∀ i, i < Gen.lexTable.size → matchAt Gen.lexTable[i]!.1 (fuel + 1) (c :: s) p = none
      ∨ matchAt Gen.lexTable[i]!.1 (fuel + 1) (c :: s) p = some p) :
    next Gen.lexTable (fuel + 1) (c :: s) p = .invalid p := by
  have hg := fold_goodE Gen.lexTable (fuel + 1) (c :: s) p (List.range Gen.lexTable.size) none
    (fun i hi => List.mem_range.mp hi) (fun i hi => hall i (List.mem_range.mp hi)) (Or.inl rfl)
  rw [← bestMatch_eq_fold] at hg
  rw [next]
  case x_4 => intro h; cases h
  rcases hg with hg | ⟨k, hg, hk, hm⟩
  · rw [hg]
  · rw [hg]
    simp only
    -- the entry matched the empty word, so it is nullable, so it is skipped
    obtain ⟨w, s', _, hw, he⟩ := matchAt_sound _ _ _ p p hm
    have hwnil : w = [] := by
      cases w with
      | nil => rfl
      | cons d u => rw [utf8Len_cons] at he; have := utf8Size_pos d; omega
    have hnull := matches_nil_nullable hw hwnil
    have hall' := List.all_eq_true.mp nullableSkipped_ok k (List.mem_range.mpr hk)
    rw [hnull] at hall'
    simp only [Bool.not_true, Bool.false_or] at hall'
    rw [hall']
    simp

/-- no entry of this run's table can begin with a character of `cls` -/
def noEntryAt (cls : List (Nat × Nat)) : Bool :=
  (List.range Gen.lexTable.size).all fun i => disjointCls cls (firstCls Gen.lexTable[i]!.1)

/-- **a character no token can begin with is reported**, whatever follows it -/
theorem next_stray (cls : List (Nat × Nat)) (h : noEntryAt cls = true) (c : Char) (hc : inCls cls c = true)
    (fuel : Nat) (s : List Char) (p : Nat) : next Gen.lexTable (fuel + 1) (c :: s) p = .invalid p := by
  apply next_invalid
  intro i hi
  have hd := List.all_eq_true.mp h i (List.mem_range.mpr hi)
  have hout := disjoint_sound _ _ hd c hc
  cases hm : matchAt Gen.lexTable[i]!.1 (fuel + 1) (c :: s) p with
  | none => exact Or.inl rfl
  | some e => exact Or.inr (by rw [matchAt_outside _ _ c s p e hout hm])

/-- **an unterminated string literal is no token**: the text ends, or a line break comes, before the closing quote -/
theorem next_string_open (fuel : Nat) (t : List Char) (p : Nat) (hf : t.length ≤ fuel + 1)
    (hopen : ∀ d u, t.dropWhile isStrBody = d :: u → d ≠ '"') :
    next Gen.lexTable (fuel + 1) ('"' :: t) p = .invalid p := by
  apply next_invalid
  intro i hi
  by_cases hne : i = strIdx
  · subst hne
    left
    rw [strIdx_entry.2, matchAt_str (fuel + 1) t p hf]
    split
    · rename_i d u hd
      rw [if_neg (hopen d u hd)]
    · rfl
  · exact others_at strIdx _ othersMissQuote_ok '"' quote_in (fuel + 1) t p i hne

/-! ### non-vacuity -/

example : noEntryAt [(35, 39)] = true := by decide +kernel          -- # $ % & '
example : noEntryAt [(92, 92), (94, 94), (96, 96), (124, 124), (126, 126)] = true := by decide +kernel   -- \ ^ ` | ~


example : (Gen.lexTable.toList.idxOf (Re.cls [(40, 40)], false), '('.toNat) ∈ punctEntries := by decide +kernel
example : (Gen.lexTable.toList.idxOf (Re.cls [(59, 59)], false), ';'.toNat) ∈ punctEntries := by decide +kernel
example : 9 ≤ punctEntries.length := by decide +kernel
-- `-` and `.` are NOT in the list: a number may begin with them, so what follows matters
example : punctEntries.all (fun e => e.2 != '-'.toNat && e.2 != '.'.toNat) = true := by decide +kernel

end Aidl.Props.LexTokens
