import AidlVerif.Props.ActionsTyped

/-!
# Type checking of the regenerated action table, and its soundness

`labelSigs` (hand-written, next to the hand-written actions): the Rust signature of each modelled
action. `TyTables.ok` checks — by kernel evaluation on the tables of the run — that every action
carrying user text has the signature of its label, that every generic builder and every composite
action is well typed and well scoped against the signatures, that calls descend in rank (so the
nesting fuel suffices), and that every production passes its symbols' types to its action and
receives its left-hand side's type. Soundness: well-typed arguments in, well-typed value out, no
`shape` or `table` panic.
-/

namespace Aidl.Props.Typed
open Aidl Aidl.Actions Aidl.Typing Aidl.Lexer

/-- the signature of every modelled action (label ↦ parameter types, return type) -/
def labelSigs : List (Nat × Sig) := [
  (16, { params := [.triple .package, .triple (.list .import_), .triple (.list .import_), .triple (.optNS .item)], ret := (.optNS .aidl) }),
  (17, { params := [.triple .loc, .triple .tok, .triple .loc, .triple .str, .triple .loc, .triple .loc, .triple .tok], ret := .package }),
  (18, { params := [.triple .loc, .triple .tok, .triple .loc, .triple (.list .tok), .triple .tok, .triple .loc, .triple .loc, .triple .tok], ret := .import_ }),
  (19, { params := [.triple (.list .tok), .triple .tok], ret := .str }),
  (20, { params := [.triple (.list .ann), .triple .loc, .triple .tok, .triple .loc, .triple (.pair .str .str), .triple .loc, .triple .tok, .triple .loc], ret := .import_ }),
  (21, { params := [.triple .iface], ret := (.optNS .item) }),
  (22, { params := [.triple .parc], ret := (.optNS .item) }),
  (23, { params := [.triple .enm], ret := (.optNS .item) }),
  (24, { params := [.triple .recovery], ret := (.optNS .item) }),
  (25, { params := [.triple .loc, .triple (.list .ann), .triple .loc, .triple (.opt .tok), .triple .tok, .triple .loc, .triple .tok, .triple .loc, .triple .tok, .triple (.list (.optNS .iel)), .triple .tok, .triple .loc], ret := .iface }),
  (26, { params := [.triple .method], ret := (.optNS .iel) }),
  (27, { params := [.triple .const], ret := (.optNS .iel) }),
  (28, { params := [.triple .recovery], ret := (.optNS .iel) }),
  (29, { params := [.triple .loc, .triple (.list .ann), .triple .loc, .triple .tok, .triple .loc, .triple .tok, .triple .loc, .triple .tok, .triple (.list (.optNS .pel)), .triple .tok, .triple .loc], ret := .parc }),
  (30, { params := [.triple .field], ret := (.optNS .pel) }),
  (31, { params := [.triple .const], ret := (.optNS .pel) }),
  (32, { params := [.triple .recovery], ret := (.optNS .pel) }),
  (33, { params := [.triple .loc, .triple (.list .ann), .triple .loc, .triple .tok, .triple .loc, .triple .tok, .triple .loc, .triple .tok, .triple (.list (.optNS .enumEl)), .triple .tok, .triple .loc], ret := .enm }),
  (34, { params := [.triple .enumEl], ret := (.optNS .enumEl) }),
  (35, { params := [.triple .recovery], ret := (.optNS .enumEl) }),
  (36, { params := [.triple .loc, .triple (.list .ann), .triple .loc, .triple .loc, .triple (.opt .tok), .triple .loc, .triple .ty, .triple .loc, .triple .tok, .triple .loc, .triple .tok, .triple (.list .arg), .triple .tok, .triple .loc, .triple (.opt (.pair .loc .tok)), .triple .loc, .triple .loc, .triple .tok], ret := .method }),
  (37, { params := [.triple .loc, .triple .dir, .triple (.list .ann), .triple .ty, .triple .loc, .triple (.opt .tok), .triple .loc], ret := .arg }),
  (38, { params := [.triple .loc, .triple (.opt .dtok), .triple .loc], ret := .dir }),
  (39, { params := [.triple .loc, .triple (.list .ann), .triple .loc, .triple .tok, .triple .ty, .triple .loc, .triple .tok, .triple .loc, .triple .tok, .triple .str, .triple .loc, .triple .tok], ret := .const }),
  (40, { params := [.triple .loc, .triple (.list .ann), .triple .loc, .triple .ty, .triple .loc, .triple .tok, .triple .loc, .triple (.opt .str), .triple .loc, .triple .tok], ret := .field }),
  (41, { params := [.triple .loc, .triple (.list .ann), .triple .loc, .triple .loc, .triple .tok, .triple .loc, .triple (.opt .tok), .triple .loc], ret := .enumEl }),
  (50, { params := [.triple .loc, .triple .tok, .triple .loc], ret := .ty }),
  (51, { params := [.triple .loc, .triple .tok, .triple .loc], ret := .ty }),
  (52, { params := [.triple .loc, .triple .tok, .triple .loc], ret := .ty }),
  (53, { params := [.triple .loc, .triple .tok, .triple .loc], ret := .ty }),
  (54, { params := [.triple .loc, .triple .loc, .triple .ty, .triple .loc, .triple .tok, .triple .tok, .triple .loc], ret := .ty }),
  (55, { params := [.triple .loc, .triple .loc, .triple .tok, .triple .loc, .triple .tok, .triple .ty, .triple .tok, .triple .loc], ret := .ty }),
  (56, { params := [.triple .loc, .triple .tok, .triple .loc], ret := .ty }),
  (57, { params := [.triple .loc, .triple .loc, .triple .tok, .triple .loc, .triple .tok, .triple .ty, .triple .tok, .triple .ty, .triple .tok, .triple .loc], ret := .ty }),
  (58, { params := [.triple .loc, .triple .tok, .triple .loc], ret := .ty }),
  (59, { params := [.triple .loc, .triple .str, .triple .loc], ret := .ty }),
  (60, { params := [.triple (.list (.optNS .ann))], ret := (.list .ann) }),
  (61, { params := [.triple .tok, .triple (.opt (.list (.pair .str (.opt .str))))], ret := (.optNS .ann) }),
  (62, { params := [.triple .tok, .triple (.opt .tok)], ret := (.pair .str (.opt .str)) }),
  (63, { params := [.triple .tok], ret := .str }),
  (64, { params := [.triple .tok], ret := .str }),
  (65, { params := [.triple .tok], ret := .str }),
  (66, { params := [.triple .tok], ret := .str }),
  (67, { params := [.triple .tok, .triple .tok], ret := .str }),
  (68, { params := [.triple .tok, .triple (.list .str), .triple (.list .str), .triple (.opt .tok), .triple .tok], ret := .str }),
  (69, { params := [.triple .tok, .triple .tok, .triple .tok], ret := .str }),
  (100, { params := [.triple (.list .tok), .triple .tok], ret := (.pair .str .str) })]

variable {env : Env}

theorem lookup_mem' {α β} [BEq α] [LawfulBEq α] {l : List (α × β)} {k : α} {v : β} (h : l.lookup k = some v) : (k, v) ∈ l := by
  induction l with
  | nil => cases h
  | cons x xs ih =>
    obtain ⟨k', v'⟩ := x
    simp only [List.lookup] at h
    split at h
    · rename_i heq
      have : k = k' := by simpa using heq
      cases h; subst this; exact List.mem_cons_self ..
    · exact List.mem_cons_of_mem _ (ih h)

theorem Tri.bind {α β} {P : α → List Diag → Prop} {Q : β → List Diag → Prop} {x : M α} {f : α → M β} {ds : List Diag}
    (hx : Tri env x ds P) (hf : ∀ a ds1, (∃ e, ds1 = ds ++ e) → P a ds1 → Tri env (f a) ds1 Q) :
    Tri env (x >>= f) ds (fun b ds' => Q b ds') := by
  unfold Tri at hx ⊢
  simp only [ReaderT.run_bind, StateT.run_bind]
  revert hx
  cases hr : (x.run env).run ds with
  | error p => exact fun hh => hh
  | ok r =>
    obtain ⟨a, ds1⟩ := r
    rintro ⟨⟨e1, h1⟩, ha⟩
    have h2 := hf a ds1 ⟨e1, h1⟩ ha
    unfold Tri at h2
    show match (ReaderT.run (f a) env).run ds1 with
      | .ok (b, ds') => (∃ ext, ds' = ds ++ ext) ∧ Q b ds' | .error p => OkKind p
    revert h2
    cases (ReaderT.run (f a) env).run ds1 with
    | error p => exact fun hh => hh
    | ok r2 =>
      rintro ⟨⟨e2, h3⟩, hq⟩
      exact ⟨⟨e1 ++ e2, by rw [h3, h1, List.append_assoc]⟩, hq⟩

theorem Tri.pur {α} {P : α → Prop} {x : M α} (ds : List Diag) (h : Pur env x P) :
    Tri env x ds (fun a ds' => ds' = ds ∧ P a) := by
  unfold Tri
  have := h ds
  revert this
  cases (x.run env).run ds with
  | error p => exact fun hh => hh
  | ok r => rintro ⟨h1, h2⟩; exact ⟨⟨[], by rw [h1]; simp⟩, h1, h2⟩

theorem Tri.mono {α} {P Q : α → List Diag → Prop} {x : M α} {ds : List Diag} (hx : Tri env x ds P)
    (h : ∀ a ds', (∃ e, ds' = ds ++ e) → P a ds' → Q a ds') : Tri env x ds Q := by
  unfold Tri at hx ⊢
  revert hx
  cases (x.run env).run ds with
  | error p => exact fun hh => hh
  | ok r => rintro ⟨h1, h2⟩; exact ⟨h1, h _ _ h1 h2⟩

theorem Tri.bad {α} {P : α → List Diag → Prop} {ds : List Diag} (k : PanicKind) (m : String) (h1 : k ≠ .shape) (h2 : k ≠ .table)
    (h3 : k ≠ .lexical) : Tri env (bad k m : M α) ds P := ⟨h1, h2, h3⟩

/-- the labels of the error-recovery actions: each of them reports an Error -/
def recoveryLabels : List Nat := [24, 28, 32, 35]

/-- the statement proved for every label: well typed, and an Error has been reported afterwards if
    the label is an error-recovery action -/
def LabelOk (env : Env) (L : Nat) (sg : Sig) : Prop :=
  ∀ (ds : List Diag) (args : List ArgV), ArgsTyped (hasError ds) sg.params args →
    Tri env (userAction L args) ds (fun v ds' => HasTy (hasError ds') sg.ret v ∧ (recoveryLabels.contains L = true → hasError ds'))

theorem label_16 : LabelOk env 16 { params := [.triple .package, .triple (.list .import_), .triple (.list .import_), .triple (.optNS .item)], ret := (.optNS .aidl) } :=
  fun ds args h => Tri.mono (Tri.of_pur (tact_16 env _ args h)) (fun _ _ _ hh => ⟨hh, fun hc => absurd hc (by decide)⟩)
theorem label_17 : LabelOk env 17 { params := [.triple .loc, .triple .tok, .triple .loc, .triple .str, .triple .loc, .triple .loc, .triple .tok], ret := .package } :=
  fun ds args h => Tri.mono (Tri.of_pur (tact_17 env _ args h)) (fun _ _ _ hh => ⟨hh, fun hc => absurd hc (by decide)⟩)
theorem label_18 : LabelOk env 18 { params := [.triple .loc, .triple .tok, .triple .loc, .triple (.list .tok), .triple .tok, .triple .loc, .triple .loc, .triple .tok], ret := .import_ } :=
  fun ds args h => Tri.mono (Tri.of_pur (tact_18 env _ args h)) (fun _ _ _ hh => ⟨hh, fun hc => absurd hc (by decide)⟩)
theorem label_19 : LabelOk env 19 { params := [.triple (.list .tok), .triple .tok], ret := .str } :=
  fun ds args h => Tri.mono (Tri.of_pur (tact_19 env _ args h)) (fun _ _ _ hh => ⟨hh, fun hc => absurd hc (by decide)⟩)
theorem label_20 : LabelOk env 20 { params := [.triple (.list .ann), .triple .loc, .triple .tok, .triple .loc, .triple (.pair .str .str), .triple .loc, .triple .tok, .triple .loc], ret := .import_ } :=
  fun ds args h => Tri.mono (Tri.of_pur (tact_20 env _ args h)) (fun _ _ _ hh => ⟨hh, fun hc => absurd hc (by decide)⟩)
theorem label_21 : LabelOk env 21 { params := [.triple .iface], ret := (.optNS .item) } :=
  fun ds args h => Tri.mono (Tri.of_pur (tact_21 env _ args h)) (fun _ _ _ hh => ⟨hh, fun hc => absurd hc (by decide)⟩)
theorem label_22 : LabelOk env 22 { params := [.triple .parc], ret := (.optNS .item) } :=
  fun ds args h => Tri.mono (Tri.of_pur (tact_22 env _ args h)) (fun _ _ _ hh => ⟨hh, fun hc => absurd hc (by decide)⟩)
theorem label_23 : LabelOk env 23 { params := [.triple .enm], ret := (.optNS .item) } :=
  fun ds args h => Tri.mono (Tri.of_pur (tact_23 env _ args h)) (fun _ _ _ hh => ⟨hh, fun hc => absurd hc (by decide)⟩)
theorem label_24 : LabelOk env 24 { params := [.triple .recovery], ret := (.optNS .item) } := by
  intro ds args h
  have : userAction 24 args = recoveryAction "Invalid item" args := by unfold userAction; rfl
  rw [this]
  exact Tri.mono (tri_recovery _ _ ds args h) (fun _ _ _ hh => ⟨hh.1, fun _ => hh.2⟩)
theorem label_25 : LabelOk env 25 { params := [.triple .loc, .triple (.list .ann), .triple .loc, .triple (.opt .tok), .triple .tok, .triple .loc, .triple .tok, .triple .loc, .triple .tok, .triple (.list (.optNS .iel)), .triple .tok, .triple .loc], ret := .iface } :=
  fun ds args h => Tri.mono (Tri.of_pur (tact_25 env _ args h)) (fun _ _ _ hh => ⟨hh, fun hc => absurd hc (by decide)⟩)
theorem label_26 : LabelOk env 26 { params := [.triple .method], ret := (.optNS .iel) } :=
  fun ds args h => Tri.mono (Tri.of_pur (tact_26 env _ args h)) (fun _ _ _ hh => ⟨hh, fun hc => absurd hc (by decide)⟩)
theorem label_27 : LabelOk env 27 { params := [.triple .const], ret := (.optNS .iel) } :=
  fun ds args h => Tri.mono (Tri.of_pur (tact_27 env _ args h)) (fun _ _ _ hh => ⟨hh, fun hc => absurd hc (by decide)⟩)
theorem label_28 : LabelOk env 28 { params := [.triple .recovery], ret := (.optNS .iel) } := by
  intro ds args h
  have : userAction 28 args = recoveryAction "Invalid interface element" args := by unfold userAction; rfl
  rw [this]
  exact Tri.mono (tri_recovery _ _ ds args h) (fun _ _ _ hh => ⟨hh.1, fun _ => hh.2⟩)
theorem label_29 : LabelOk env 29 { params := [.triple .loc, .triple (.list .ann), .triple .loc, .triple .tok, .triple .loc, .triple .tok, .triple .loc, .triple .tok, .triple (.list (.optNS .pel)), .triple .tok, .triple .loc], ret := .parc } :=
  fun ds args h => Tri.mono (Tri.of_pur (tact_29 env _ args h)) (fun _ _ _ hh => ⟨hh, fun hc => absurd hc (by decide)⟩)
theorem label_30 : LabelOk env 30 { params := [.triple .field], ret := (.optNS .pel) } :=
  fun ds args h => Tri.mono (Tri.of_pur (tact_30 env _ args h)) (fun _ _ _ hh => ⟨hh, fun hc => absurd hc (by decide)⟩)
theorem label_31 : LabelOk env 31 { params := [.triple .const], ret := (.optNS .pel) } :=
  fun ds args h => Tri.mono (Tri.of_pur (tact_31 env _ args h)) (fun _ _ _ hh => ⟨hh, fun hc => absurd hc (by decide)⟩)
theorem label_32 : LabelOk env 32 { params := [.triple .recovery], ret := (.optNS .pel) } := by
  intro ds args h
  have : userAction 32 args = recoveryAction "Invalid parcelable element" args := by unfold userAction; rfl
  rw [this]
  exact Tri.mono (tri_recovery _ _ ds args h) (fun _ _ _ hh => ⟨hh.1, fun _ => hh.2⟩)
theorem label_33 : LabelOk env 33 { params := [.triple .loc, .triple (.list .ann), .triple .loc, .triple .tok, .triple .loc, .triple .tok, .triple .loc, .triple .tok, .triple (.list (.optNS .enumEl)), .triple .tok, .triple .loc], ret := .enm } :=
  fun ds args h => Tri.mono (Tri.of_pur (tact_33 env _ args h)) (fun _ _ _ hh => ⟨hh, fun hc => absurd hc (by decide)⟩)
theorem label_34 : LabelOk env 34 { params := [.triple .enumEl], ret := (.optNS .enumEl) } :=
  fun ds args h => Tri.mono (Tri.of_pur (tact_34 env _ args h)) (fun _ _ _ hh => ⟨hh, fun hc => absurd hc (by decide)⟩)
theorem label_35 : LabelOk env 35 { params := [.triple .recovery], ret := (.optNS .enumEl) } := by
  intro ds args h
  have : userAction 35 args = recoveryAction "Invalid enum element" args := by unfold userAction; rfl
  rw [this]
  exact Tri.mono (tri_recovery _ _ ds args h) (fun _ _ _ hh => ⟨hh.1, fun _ => hh.2⟩)
theorem label_36 : LabelOk env 36 { params := [.triple .loc, .triple (.list .ann), .triple .loc, .triple .loc, .triple (.opt .tok), .triple .loc, .triple .ty, .triple .loc, .triple .tok, .triple .loc, .triple .tok, .triple (.list .arg), .triple .tok, .triple .loc, .triple (.opt (.pair .loc .tok)), .triple .loc, .triple .loc, .triple .tok], ret := .method } :=
  fun ds args h => Tri.mono (Tri.of_purE (tact_36 env _ args h)) (fun _ _ _ hh => ⟨hh, fun hc => absurd hc (by decide)⟩)
theorem label_37 : LabelOk env 37 { params := [.triple .loc, .triple .dir, .triple (.list .ann), .triple .ty, .triple .loc, .triple (.opt .tok), .triple .loc], ret := .arg } :=
  fun ds args h => Tri.mono (Tri.of_pur (tact_37 env _ args h)) (fun _ _ _ hh => ⟨hh, fun hc => absurd hc (by decide)⟩)
theorem label_38 : LabelOk env 38 { params := [.triple .loc, .triple (.opt .dtok), .triple .loc], ret := .dir } :=
  fun ds args h => Tri.mono (Tri.of_pur (tact_38 env _ args h)) (fun _ _ _ hh => ⟨hh, fun hc => absurd hc (by decide)⟩)
theorem label_39 : LabelOk env 39 { params := [.triple .loc, .triple (.list .ann), .triple .loc, .triple .tok, .triple .ty, .triple .loc, .triple .tok, .triple .loc, .triple .tok, .triple .str, .triple .loc, .triple .tok], ret := .const } :=
  fun ds args h => Tri.mono (Tri.of_pur (tact_39 env _ args h)) (fun _ _ _ hh => ⟨hh, fun hc => absurd hc (by decide)⟩)
theorem label_40 : LabelOk env 40 { params := [.triple .loc, .triple (.list .ann), .triple .loc, .triple .ty, .triple .loc, .triple .tok, .triple .loc, .triple (.opt .str), .triple .loc, .triple .tok], ret := .field } :=
  fun ds args h => Tri.mono (Tri.of_pur (tact_40 env _ args h)) (fun _ _ _ hh => ⟨hh, fun hc => absurd hc (by decide)⟩)
theorem label_41 : LabelOk env 41 { params := [.triple .loc, .triple (.list .ann), .triple .loc, .triple .loc, .triple .tok, .triple .loc, .triple (.opt .tok), .triple .loc], ret := .enumEl } :=
  fun ds args h => Tri.mono (Tri.of_pur (tact_41 env _ args h)) (fun _ _ _ hh => ⟨hh, fun hc => absurd hc (by decide)⟩)
theorem label_50 : LabelOk env 50 { params := [.triple .loc, .triple .tok, .triple .loc], ret := .ty } :=
  fun ds args h => Tri.mono (Tri.of_pur (tact_50 env _ args h)) (fun _ _ _ hh => ⟨hh, fun hc => absurd hc (by decide)⟩)
theorem label_51 : LabelOk env 51 { params := [.triple .loc, .triple .tok, .triple .loc], ret := .ty } :=
  fun ds args h => Tri.mono (Tri.of_pur (tact_51 env _ args h)) (fun _ _ _ hh => ⟨hh, fun hc => absurd hc (by decide)⟩)
theorem label_52 : LabelOk env 52 { params := [.triple .loc, .triple .tok, .triple .loc], ret := .ty } :=
  fun ds args h => Tri.mono (Tri.of_pur (tact_52 env _ args h)) (fun _ _ _ hh => ⟨hh, fun hc => absurd hc (by decide)⟩)
theorem label_53 : LabelOk env 53 { params := [.triple .loc, .triple .tok, .triple .loc], ret := .ty } :=
  fun ds args h => Tri.mono (Tri.of_pur (tact_53 env _ args h)) (fun _ _ _ hh => ⟨hh, fun hc => absurd hc (by decide)⟩)
theorem label_54 : LabelOk env 54 { params := [.triple .loc, .triple .loc, .triple .ty, .triple .loc, .triple .tok, .triple .tok, .triple .loc], ret := .ty } :=
  fun ds args h => Tri.mono (Tri.of_pur (tact_54 env _ args h)) (fun _ _ _ hh => ⟨hh, fun hc => absurd hc (by decide)⟩)
theorem label_55 : LabelOk env 55 { params := [.triple .loc, .triple .loc, .triple .tok, .triple .loc, .triple .tok, .triple .ty, .triple .tok, .triple .loc], ret := .ty } :=
  fun ds args h => Tri.mono (Tri.of_pur (tact_55 env _ args h)) (fun _ _ _ hh => ⟨hh, fun hc => absurd hc (by decide)⟩)
theorem label_56 : LabelOk env 56 { params := [.triple .loc, .triple .tok, .triple .loc], ret := .ty } :=
  fun ds args h => Tri.mono (Tri.of_pur (tact_56 env _ args h)) (fun _ _ _ hh => ⟨hh, fun hc => absurd hc (by decide)⟩)
theorem label_57 : LabelOk env 57 { params := [.triple .loc, .triple .loc, .triple .tok, .triple .loc, .triple .tok, .triple .ty, .triple .tok, .triple .ty, .triple .tok, .triple .loc], ret := .ty } :=
  fun ds args h => Tri.mono (Tri.of_pur (tact_57 env _ args h)) (fun _ _ _ hh => ⟨hh, fun hc => absurd hc (by decide)⟩)
theorem label_58 : LabelOk env 58 { params := [.triple .loc, .triple .tok, .triple .loc], ret := .ty } :=
  fun ds args h => Tri.mono (Tri.of_pur (tact_58 env _ args h)) (fun _ _ _ hh => ⟨hh, fun hc => absurd hc (by decide)⟩)
theorem label_59 : LabelOk env 59 { params := [.triple .loc, .triple .str, .triple .loc], ret := .ty } :=
  fun ds args h => Tri.mono (Tri.of_pur (tact_59 env _ args h)) (fun _ _ _ hh => ⟨hh, fun hc => absurd hc (by decide)⟩)
theorem label_60 : LabelOk env 60 { params := [.triple (.list (.optNS .ann))], ret := (.list .ann) } :=
  fun ds args h => Tri.mono (Tri.of_pur (tact_60 env _ args h)) (fun _ _ _ hh => ⟨hh, fun hc => absurd hc (by decide)⟩)
theorem label_61 : LabelOk env 61 { params := [.triple .tok, .triple (.opt (.list (.pair .str (.opt .str))))], ret := (.optNS .ann) } :=
  fun ds args h => Tri.mono (Tri.of_pur (tact_61 env _ args h)) (fun _ _ _ hh => ⟨hh, fun hc => absurd hc (by decide)⟩)
theorem label_62 : LabelOk env 62 { params := [.triple .tok, .triple (.opt .tok)], ret := (.pair .str (.opt .str)) } :=
  fun ds args h => Tri.mono (Tri.of_pur (tact_62 env _ args h)) (fun _ _ _ hh => ⟨hh, fun hc => absurd hc (by decide)⟩)
theorem label_63 : LabelOk env 63 { params := [.triple .tok], ret := .str } :=
  fun ds args h => Tri.mono (Tri.of_pur (tact_63 env _ args h)) (fun _ _ _ hh => ⟨hh, fun hc => absurd hc (by decide)⟩)
theorem label_64 : LabelOk env 64 { params := [.triple .tok], ret := .str } :=
  fun ds args h => Tri.mono (Tri.of_pur (tact_64 env _ args h)) (fun _ _ _ hh => ⟨hh, fun hc => absurd hc (by decide)⟩)
theorem label_65 : LabelOk env 65 { params := [.triple .tok], ret := .str } :=
  fun ds args h => Tri.mono (Tri.of_pur (tact_65 env _ args h)) (fun _ _ _ hh => ⟨hh, fun hc => absurd hc (by decide)⟩)
theorem label_66 : LabelOk env 66 { params := [.triple .tok], ret := .str } :=
  fun ds args h => Tri.mono (Tri.of_pur (tact_66 env _ args h)) (fun _ _ _ hh => ⟨hh, fun hc => absurd hc (by decide)⟩)
theorem label_67 : LabelOk env 67 { params := [.triple .tok, .triple .tok], ret := .str } :=
  fun ds args h => Tri.mono (Tri.of_pur (tact_67 env _ args h)) (fun _ _ _ hh => ⟨hh, fun hc => absurd hc (by decide)⟩)
theorem label_68 : LabelOk env 68 { params := [.triple .tok, .triple (.list .str), .triple (.list .str), .triple (.opt .tok), .triple .tok], ret := .str } :=
  fun ds args h => Tri.mono (Tri.of_pur (tact_68 env _ args h)) (fun _ _ _ hh => ⟨hh, fun hc => absurd hc (by decide)⟩)
theorem label_69 : LabelOk env 69 { params := [.triple .tok, .triple .tok, .triple .tok], ret := .str } :=
  fun ds args h => Tri.mono (Tri.of_pur (tact_69 env _ args h)) (fun _ _ _ hh => ⟨hh, fun hc => absurd hc (by decide)⟩)
theorem label_100 : LabelOk env 100 { params := [.triple (.list .tok), .triple .tok], ret := (.pair .str .str) } :=
  fun ds args h => Tri.mono (Tri.of_pur (tact_100 env _ args h)) (fun _ _ _ hh => ⟨hh, fun hc => absurd hc (by decide)⟩)

set_option maxHeartbeats 2000000 in
set_option maxRecDepth 100000 in
/-- every entry of `labelSigs` is the signature of an action proved well typed above -/
theorem labelSigs_ok (L : Nat) (sg : Sig) (h : labelSigs.lookup L = some sg) : LabelOk env L sg := by
  have hmem := lookup_mem' h
  unfold labelSigs at hmem
  simp only [List.mem_cons, Prod.mk.injEq, List.mem_nil_iff, or_false] at hmem
  rcases hmem with ⟨rfl, rfl⟩ | ⟨rfl, rfl⟩ | ⟨rfl, rfl⟩ | ⟨rfl, rfl⟩ | ⟨rfl, rfl⟩ | ⟨rfl, rfl⟩ | ⟨rfl, rfl⟩ | ⟨rfl, rfl⟩ | ⟨rfl, rfl⟩ | ⟨rfl, rfl⟩ | ⟨rfl, rfl⟩ | ⟨rfl, rfl⟩ | ⟨rfl, rfl⟩ | ⟨rfl, rfl⟩ | ⟨rfl, rfl⟩ | ⟨rfl, rfl⟩ | ⟨rfl, rfl⟩ | ⟨rfl, rfl⟩ | ⟨rfl, rfl⟩ | ⟨rfl, rfl⟩ | ⟨rfl, rfl⟩ | ⟨rfl, rfl⟩ | ⟨rfl, rfl⟩ | ⟨rfl, rfl⟩ | ⟨rfl, rfl⟩ | ⟨rfl, rfl⟩ | ⟨rfl, rfl⟩ | ⟨rfl, rfl⟩ | ⟨rfl, rfl⟩ | ⟨rfl, rfl⟩ | ⟨rfl, rfl⟩ | ⟨rfl, rfl⟩ | ⟨rfl, rfl⟩ | ⟨rfl, rfl⟩ | ⟨rfl, rfl⟩ | ⟨rfl, rfl⟩ | ⟨rfl, rfl⟩ | ⟨rfl, rfl⟩ | ⟨rfl, rfl⟩ | ⟨rfl, rfl⟩ | ⟨rfl, rfl⟩ | ⟨rfl, rfl⟩ | ⟨rfl, rfl⟩ | ⟨rfl, rfl⟩ | ⟨rfl, rfl⟩ | ⟨rfl, rfl⟩ | ⟨rfl, rfl⟩
  · exact label_16
  · exact label_17
  · exact label_18
  · exact label_19
  · exact label_20
  · exact label_21
  · exact label_22
  · exact label_23
  · exact label_24
  · exact label_25
  · exact label_26
  · exact label_27
  · exact label_28
  · exact label_29
  · exact label_30
  · exact label_31
  · exact label_32
  · exact label_33
  · exact label_34
  · exact label_35
  · exact label_36
  · exact label_37
  · exact label_38
  · exact label_39
  · exact label_40
  · exact label_41
  · exact label_50
  · exact label_51
  · exact label_52
  · exact label_53
  · exact label_54
  · exact label_55
  · exact label_56
  · exact label_57
  · exact label_58
  · exact label_59
  · exact label_60
  · exact label_61
  · exact label_62
  · exact label_63
  · exact label_64
  · exact label_65
  · exact label_66
  · exact label_67
  · exact label_68
  · exact label_69
  · exact label_100


/-! ### the checker -/

structure TyTables where
  defs : Array ActionDef
  sigs : Array Sig
  symTys : Array VTy
  ranks : Array Nat
  reports : Array Bool       -- claimed: running this action reports an Error

namespace TyTables
variable (TT : TyTables)

def rankOf (id : Nat) : Nat := (TT.ranks[id]?).getD 1000
def reportsOf (id : Nat) : Bool := (TT.reports[id]?).getD false

/-- some call in the body reports an Error -/
def stmtsReport : List Stmt → Bool
  | [] => false
  | .letCall _ a _ :: rest => TT.reportsOf a || stmtsReport rest
  | .ret a _ :: _ => TT.reportsOf a
  | _ :: rest => stmtsReport rest

def checkPrim (sg : Sig) : Prim → Bool
  | .arg i => sg.params[i]? == some (.triple sg.ret) || (sg.params[i]? == some .locRef && sg.ret == .loc)
  | .some i => match sg.ret with
    | .opt t => sg.params[i]? == some (.triple t)
    | .optNS t => sg.params[i]? == some (.triple t)
    | _ => false
  | .none => match sg.ret with
    | .opt _ => true
    | _ => false
  | .nil => match sg.ret with
    | .list _ => true
    | _ => false
  | .sing i => match sg.ret with
    | .list t => sg.params[i]? == some (.triple t)
    | _ => false
  | .push v e => match sg.ret with
    | .list t => sg.params[v]? == some (.triple (.list t)) && sg.params[e]? == some (.triple t)
    | _ => false
  | .pushOpt v e => match sg.ret with
    | .list t => sg.params[v]? == some (.triple (.list t)) && sg.params[e]? == some (.triple (.opt t))
    | _ => false
  | .pair i j => match sg.ret with
    | .pair a b => sg.params[i]? == some (.triple a) && sg.params[j]? == some (.triple b)
    | _ => false

def argTy (own : Sig) (locs : List String) (temps : List (String × VTy)) : ArgExpr → Option ATy
  | .param i => own.params[i]?
  | .temp n => (temps.lookup n).map .triple
  | .loc n => if locs.contains n then some .locRef else none

def locOk (own : Sig) (locs : List String) : LocExpr → Bool
  | .param i _ => (own.params[i]?).isSome
  | .var n => locs.contains n

def checkStmts (own : Sig) (rank : Nat) : List String → List (String × VTy) → List Stmt → Bool
  | _, _, [] => false
  | locs, temps, .letLoc n e :: rest => locOk own locs e && checkStmts own rank (n :: locs) temps rest
  | locs, temps, .letCall n a as :: rest =>
    match TT.sigs[a]? with
    | some sg => as.mapM (argTy own locs temps) == some sg.params && decide (TT.rankOf a < rank)
        && checkStmts own rank locs ((n, sg.ret) :: temps) rest
    | none => false
  | locs, temps, .letTriple n s e :: rest =>
    locs.contains s && locs.contains e && (temps.lookup n).isSome && checkStmts own rank locs temps rest
  | locs, temps, .ret a as :: _ =>
    match TT.sigs[a]? with
    | some sg => as.mapM (argTy own locs temps) == some sg.params && sg.ret == own.ret && decide (TT.rankOf a < rank)
    | none => false

def checkAction (id : Nat) : Bool :=
  match TT.defs[id]?, TT.sigs[id]? with
  | some (.user _ print), some sg =>
    (printToLabel.lookup print).bind (fun L => labelSigs.lookup L) == some sg
      && (!TT.reportsOf id || (match printToLabel.lookup print with
                               | some L => recoveryLabels.contains L
                               | none => false))
  | some (.prim _ p), some sg => checkPrim sg p && !TT.reportsOf id
  | some (.composite _ body), some sg =>
    TT.checkStmts sg (TT.rankOf id) [] [] body && (!TT.reportsOf id || TT.stmtsReport body)
  | _, _ => false

def actionsOk : Bool :=
  TT.defs.size == TT.sigs.size && (List.range TT.defs.size).all fun id => TT.checkAction id && decide (TT.rankOf id < 16)

end TyTables

/-! ### soundness -/

theorem getElem?_of_beq {α} [BEq α] [LawfulBEq α] {o : Option α} {a : α} (h : (o == some a) = true) : o = some a := by
  simpa using h

theorem evalPrim_typed (sg : Sig) (p : Prim) (hp : TyTables.checkPrim sg p = true) (ds : List Diag) (args : List ArgV)
    (h : ArgsTyped (hasError ds) sg.params args) :
    Tri env (evalPrim p args) ds (fun v ds' => HasTy (hasError ds') sg.ret v) := by
  refine Tri.mono (P := fun v ds' => ds' = ds ∧ HasTy (hasError ds) sg.ret v) (Tri.pur ds ?_)
    (fun v ds' _ hh => by rw [hh.1]; exact hh.2)
  cases p with
  | arg i =>
    simp only [evalPrim]
    simp only [TyTables.checkPrim, Bool.or_eq_true, Bool.and_eq_true] at hp
    rcases hp with hp | ⟨hp1, hp2⟩
    · exact pur_nth h (getElem?_of_beq hp)
    · -- a bare location
      obtain ⟨a, ha, hty⟩ := h.get (getElem?_of_beq hp1)
      have hr : sg.ret = .loc := by simpa using hp2
      unfold nth
      rw [ha, hr]
      cases a with
      | triple s v e => exact hty.elim
      | locRef n => exact Pur.pure _ trivial
  | some i =>
    simp only [evalPrim]
    simp only [TyTables.checkPrim] at hp
    split at hp
    · rename_i t hr; rw [hr]
      exact Pur.bind (pur_nth h (getElem?_of_beq hp)) (fun v hv => Pur.pure _ (by simpa [HasTy] using hv))
    · rename_i t hr; rw [hr]
      exact Pur.bind (pur_nth h (getElem?_of_beq hp)) (fun v hv => Pur.pure _ (by simpa [HasTy] using hv))
    · cases hp
  | none =>
    simp only [evalPrim]
    simp only [TyTables.checkPrim] at hp
    split at hp
    · rename_i t hr; rw [hr]; exact Pur.pure _ (by simp [HasTy])
    · cases hp
  | nil =>
    simp only [evalPrim]
    simp only [TyTables.checkPrim] at hp
    split at hp
    · rename_i t hr; rw [hr]; exact Pur.pure _ (by simp [HasTy])
    · cases hp
  | sing i =>
    simp only [evalPrim]
    simp only [TyTables.checkPrim] at hp
    split at hp
    · rename_i t hr; rw [hr]
      exact Pur.bind (pur_nth h (getElem?_of_beq hp)) (fun v hv => Pur.pure _ (by simpa [HasTy] using hv))
    · cases hp
  | push v e =>
    simp only [evalPrim]
    simp only [TyTables.checkPrim] at hp
    split at hp
    · rename_i t hr; rw [hr]
      simp only [Bool.and_eq_true] at hp
      refine Pur.bind (pur_nth h (getElem?_of_beq hp.1)) (fun l hl => ?_)
      refine Pur.bind (pur_asList hl) (fun l' hl' => ?_)
      refine Pur.bind (pur_nth h (getElem?_of_beq hp.2)) (fun x hx => ?_)
      refine Pur.pure _ ?_
      simp only [HasTy]
      intro y hy
      rcases List.mem_append.mp hy with hy | hy
      · exact hl' y hy
      · simp only [List.mem_cons, List.mem_nil_iff, or_false] at hy; rw [hy]; exact hx
    · cases hp
  | pushOpt v e =>
    simp only [evalPrim]
    simp only [TyTables.checkPrim] at hp
    split at hp
    · rename_i t hr; rw [hr]
      simp only [Bool.and_eq_true] at hp
      refine Pur.bind (pur_nth h (getElem?_of_beq hp.2)) (fun o ho => ?_)
      refine Pur.bind (pur_asOpt ho) (fun o' ho' => ?_)
      cases o' with
      | none => exact pur_nth h (getElem?_of_beq hp.1)
      | some x =>
        dsimp only
        refine Pur.bind (pur_nth h (getElem?_of_beq hp.1)) (fun l hl => ?_)
        refine Pur.bind (pur_asList hl) (fun l' hl' => ?_)
        refine Pur.pure _ ?_
        simp only [HasTy]
        intro y hy
        rcases List.mem_append.mp hy with hy | hy
        · exact hl' y hy
        · simp only [List.mem_cons, List.mem_nil_iff, or_false] at hy; rw [hy]; exact ho' x rfl
    · cases hp
  | pair i j =>
    simp only [evalPrim]
    simp only [TyTables.checkPrim] at hp
    split at hp
    · rename_i a b hr; rw [hr]
      simp only [Bool.and_eq_true] at hp
      refine Pur.bind (pur_nth h (getElem?_of_beq hp.1)) (fun x hx => ?_)
      refine Pur.bind (pur_nth h (getElem?_of_beq hp.2)) (fun y hy => ?_)
      exact Pur.pure _ (by simp only [HasTy]; exact ⟨hx, hy⟩)
    · cases hp


/-! ### composite actions -/

def ScopeOk (E : Prop) (locs : List String) (temps : List (String × VTy)) (sc : Scope) : Prop :=
  (∀ n, n ∈ locs → (sc.locs.lookup n).isSome = true) ∧
  (∀ n t, temps.lookup n = some t → ∃ a v b, sc.temps.lookup n = some (.triple a v b) ∧ HasTy E t v)

theorem ScopeOk.mono {E E' : Prop} (h : E → E') {locs temps sc} (hs : ScopeOk E locs temps sc) : ScopeOk E' locs temps sc :=
  ⟨hs.1, fun n t hn => by
    obtain ⟨a, v, b, h1, h2⟩ := hs.2 n t hn
    exact ⟨a, v, b, h1, HasTy.mono h _ _ h2⟩⟩

theorem scopeOk_empty (E : Prop) : ScopeOk E [] [] {} := by
  refine ⟨?_, ?_⟩
  · intro n hn; cases hn
  · intro n t hn; simp [List.lookup] at hn

theorem lookup_cons {β} (n m : String) (v : β) (l : List (String × β)) :
    List.lookup m ((n, v) :: l) = if m == n then some v else l.lookup m := by
  simp only [List.lookup]
  split <;> simp_all

theorem evalLoc_pur {E : Prop} (own : Sig) (locs : List String) (temps : List (String × VTy)) (sc : Scope)
    (args : List ArgV) (e : LocExpr) (hargs : ArgsTyped E own.params args) (hs : ScopeOk E locs temps sc)
    (hok : TyTables.locOk own locs e = true) : Pur env (evalLoc sc args e) (fun _ => True) := by
  cases e with
  | param i start =>
    simp only [TyTables.locOk, Option.isSome_iff_exists] at hok
    obtain ⟨t, ht⟩ := hok
    obtain ⟨a, ha, _⟩ := hargs.get ht
    simp only [evalLoc, ha]
    cases a <;> exact Pur.pure _ trivial
  | var n =>
    simp only [TyTables.locOk, List.contains_eq_mem, decide_eq_true_eq] at hok
    have := hs.1 n hok
    simp only [evalLoc]
    cases hl : sc.locs.lookup n with
    | none => rw [hl] at this; cases this
    | some v => exact Pur.pure _ trivial

theorem evalArg_pur {E : Prop} (own : Sig) (locs : List String) (temps : List (String × VTy)) (sc : Scope)
    (args : List ArgV) (e : ArgExpr) (t : ATy) (hargs : ArgsTyped E own.params args) (hs : ScopeOk E locs temps sc)
    (hty : TyTables.argTy own locs temps e = some t) : Pur env (evalArg sc args e) (HasATy E t) := by
  cases e with
  | param i =>
    simp only [TyTables.argTy] at hty
    obtain ⟨a, ha, hta⟩ := hargs.get hty
    simp only [evalArg, ha]
    exact Pur.pure _ hta
  | temp n =>
    simp only [TyTables.argTy, Option.map_eq_some_iff] at hty
    obtain ⟨vt, h1, rfl⟩ := hty
    obtain ⟨a, v, b, h2, h3⟩ := hs.2 n vt h1
    simp only [evalArg, h2]
    exact Pur.pure _ h3
  | loc n =>
    simp only [TyTables.argTy] at hty
    split at hty
    · rename_i hc
      cases hty
      have := hs.1 n (by simpa using hc)
      simp only [evalArg]
      cases hl : sc.locs.lookup n with
      | none => rw [hl] at this; cases this
      | some v => exact Pur.pure _ trivial
    · cases hty

theorem evalArgs_pur {E : Prop} (own : Sig) (locs : List String) (temps : List (String × VTy)) (sc : Scope)
    (args : List ArgV) (hargs : ArgsTyped E own.params args) (hs : ScopeOk E locs temps sc) :
    ∀ (as : List ArgExpr) (tys : List ATy), as.mapM (TyTables.argTy own locs temps) = some tys →
      Pur env (as.mapM (evalArg sc args)) (ArgsTyped E tys) := by
  intro as
  induction as with
  | nil =>
    intro tys h
    simp only [List.mapM_nil, Option.pure_def, Option.some.injEq] at h
    subst h
    rw [List.mapM_nil]
    exact Pur.pure _ trivial
  | cons a as ih =>
    intro tys h
    rw [List.mapM_cons] at h
    cases h1 : TyTables.argTy own locs temps a with
    | none => simp [h1] at h
    | some t =>
      cases h2 : as.mapM (TyTables.argTy own locs temps) with
      | none => simp [h1, h2] at h
      | some ts =>
        simp only [h1, h2, Option.pure_def, Option.bind_eq_bind, Option.bind_some, Option.some.injEq] at h
        subst h
        rw [List.mapM_cons]
        refine Pur.bind (evalArg_pur own locs temps sc args a t hargs hs h1) (fun v hv => ?_)
        refine Pur.bind (ih ts h2) (fun vs hvs => ?_)
        exact Pur.pure _ ⟨hv, hvs⟩

/-- what a callee must satisfy -/
def CallOk (env : Env) (TT : TyTables) (rank : Nat) (call : Nat → List ArgV → M Val) : Prop :=
  ∀ a sg, TT.sigs[a]? = some sg → TT.rankOf a < rank → ∀ ds args, ArgsTyped (hasError ds) sg.params args →
    Tri env (call a args) ds (fun v ds' => HasTy (hasError ds') sg.ret v ∧ (TT.reportsOf a = true → hasError ds'))

theorem hasError_mono {ds ds1 : List Diag} (h : ∃ e, ds1 = ds ++ e) : hasError ds → hasError ds1 := by
  obtain ⟨e, rfl⟩ := h
  exact hasError_append

theorem runStmts_typed (TT : TyTables) (own : Sig) (rank : Nat) (call : Nat → List ArgV → M Val)
    (hcall : CallOk env TT rank call) (args : List ArgV) :
    ∀ (stmts : List Stmt) (locs : List String) (temps : List (String × VTy)) (sc : Scope) (ds : List Diag),
      TT.checkStmts own rank locs temps stmts = true → ArgsTyped (hasError ds) own.params args →
      ScopeOk (hasError ds) locs temps sc →
      Tri env (runStmts call args sc stmts) ds
        (fun v ds' => HasTy (hasError ds') own.ret v ∧ (TT.stmtsReport stmts = true → hasError ds')) := by
  intro stmts
  induction stmts with
  | nil => intro locs temps sc ds hc; simp [TyTables.checkStmts] at hc
  | cons st rest ih =>
    intro locs temps sc ds hc hargs hs
    cases st with
    | letLoc n e =>
      simp only [TyTables.checkStmts, Bool.and_eq_true] at hc
      unfold runStmts
      refine Tri.bind (Tri.pur ds (evalLoc_pur own locs temps sc args e hargs hs hc.1)) ?_
      rintro v ds1 _ ⟨rfl, _⟩
      refine Tri.mono (ih (n :: locs) temps _ ds1 hc.2 hargs ⟨?_, hs.2⟩) (fun _ _ _ hh => ⟨hh.1, fun hr => hh.2 (by simpa [TyTables.stmtsReport] using hr)⟩)
      intro m hm
      simp only [lookup_cons]
      rcases List.mem_cons.mp hm with rfl | hm
      · simp
      · split
        · rfl
        · exact hs.1 m hm
    | letCall n a as =>
      simp only [TyTables.checkStmts] at hc
      cases hsg : TT.sigs[a]? with
      | none => simp [hsg] at hc
      | some sg =>
        simp only [hsg, Bool.and_eq_true, decide_eq_true_eq] at hc
        obtain ⟨⟨hc1, hc2⟩, hc3⟩ := hc
        unfold runStmts
        refine Tri.bind (Tri.pur ds (evalArgs_pur own locs temps sc args hargs hs as sg.params (getElem?_of_beq hc1))) ?_
        rintro vs ds1 _ ⟨rfl, hvs⟩
        refine Tri.bind (hcall a sg hsg hc2 ds1 vs hvs) ?_
        intro r ds2 hext hr
        have hm := hasError_mono hext
        refine Tri.mono (ih locs ((n, sg.ret) :: temps) _ ds2 hc3 (hargs.mono hm) ⟨hs.1, ?_⟩) ?_
        · intro m t hmt
          simp only [lookup_cons] at hmt ⊢
          split at hmt
          · rename_i heq
            cases hmt
            simp only [heq, if_true]
            exact ⟨0, r, 0, rfl, hr.1⟩
          · rename_i hne
            simp only [hne]
            obtain ⟨a', v', b', h1, h2⟩ := hs.2 m t hmt
            exact ⟨a', v', b', by simpa using h1, HasTy.mono hm _ _ h2⟩
        · intro v ds3 hext3 hh
          refine ⟨hh.1, fun hrep => ?_⟩
          simp only [TyTables.stmtsReport, Bool.or_eq_true] at hrep
          rcases hrep with hrep | hrep
          · exact hasError_mono hext3 (hr.2 hrep)
          · exact hh.2 hrep
    | letTriple n s e =>
      simp only [TyTables.checkStmts, Bool.and_eq_true, List.contains_eq_mem, decide_eq_true_eq, Option.isSome_iff_exists] at hc
      obtain ⟨⟨⟨hc1, hc2⟩, ⟨t, hc3⟩⟩, hc4⟩ := hc
      unfold runStmts
      refine Tri.bind (Tri.pur ds (evalLoc_pur own locs temps sc args (.var s) hargs hs (by simpa [TyTables.locOk] using hc1))) ?_
      rintro sv ds1 _ ⟨rfl, _⟩
      refine Tri.bind (Tri.pur ds1 (evalLoc_pur own locs temps sc args (.var e) hargs hs (by simpa [TyTables.locOk] using hc2))) ?_
      rintro ev ds2 _ ⟨rfl, _⟩
      obtain ⟨a', v', b', h1, h2⟩ := hs.2 n t hc3
      simp only [h1]
      refine Tri.mono (ih locs temps _ ds2 hc4 hargs ⟨hs.1, ?_⟩) (fun _ _ _ hh => ⟨hh.1, fun hr => hh.2 (by simpa [TyTables.stmtsReport] using hr)⟩)
      intro m t' hmt
      simp only [lookup_cons]
      split
      · rename_i heq
        have : m = n := by simpa using heq
        subst this
        rw [hc3] at hmt
        cases hmt
        exact ⟨sv, v', ev, rfl, h2⟩
      · exact hs.2 m t' hmt
    | ret a as =>
      simp only [TyTables.checkStmts] at hc
      cases hsg : TT.sigs[a]? with
      | none => simp [hsg] at hc
      | some sg =>
        simp only [hsg, Bool.and_eq_true, decide_eq_true_eq, beq_iff_eq] at hc
        obtain ⟨⟨hc1, hc2⟩, hc3⟩ := hc
        unfold runStmts
        refine Tri.bind (Tri.pur ds (evalArgs_pur own locs temps sc args hargs hs as sg.params (getElem?_of_beq (by simpa using hc1)))) ?_
        rintro vs ds1 _ ⟨rfl, hvs⟩
        rw [← hc2]
        refine Tri.mono (hcall a sg hsg hc3 ds1 vs hvs) ?_
        intro v ds2 hext hh
        refine ⟨hh.1, fun hrep => ?_⟩
        exact hh.2 (by simpa [TyTables.stmtsReport] using hrep)

theorem evalAction_typed (TT : TyTables) (hok : TT.actionsOk = true) :
    ∀ (fuel : Nat), CallOk env TT fuel (evalAction TT.defs fuel) := by
  unfold TyTables.actionsOk at hok
  simp only [Bool.and_eq_true, beq_iff_eq] at hok
  obtain ⟨hsize, hall⟩ := hok
  intro fuel
  induction fuel with
  | zero => intro a sg _ hr; exact absurd hr (Nat.not_lt_zero _)
  | succ f ih =>
    intro a sg hsg hr ds args hargs
    have ha : a < TT.defs.size := by
      rw [hsize]; exact (Array.getElem?_eq_some_iff.mp hsg).1
    have hchk := (List.all_eq_true.mp hall) a (List.mem_range.mpr ha)
    simp only [Bool.and_eq_true, decide_eq_true_eq] at hchk
    obtain ⟨hchk, _⟩ := hchk
    unfold TyTables.checkAction at hchk
    unfold evalAction
    cases hd : TT.defs[a]? with
    | none => simp [hd] at hchk
    | some d =>
      simp only [hd, hsg] at hchk
      cases d with
      | user ar print =>
        dsimp only at hchk ⊢
        simp only [Bool.and_eq_true] at hchk
        obtain ⟨hsig, hrep⟩ := hchk
        cases hl : printToLabel.lookup print with
        | none => simp [hl] at hsig
        | some label =>
          simp only [hl, Option.bind_some] at hsig hrep
          refine Tri.mono (labelSigs_ok label sg (getElem?_of_beq hsig) ds args hargs) ?_
          intro v ds' _ hh
          refine ⟨hh.1, fun hr' => hh.2 ?_⟩
          simpa [hr'] using hrep
      | prim ar p =>
        simp only [Bool.and_eq_true, Bool.not_eq_true'] at hchk
        refine Tri.mono (evalPrim_typed sg p hchk.1 ds args hargs) ?_
        intro v ds' _ hh
        exact ⟨hh, fun hr' => by rw [hchk.2] at hr'; cases hr'⟩
      | composite ar body =>
        dsimp only at hchk ⊢
        simp only [Bool.and_eq_true] at hchk
        refine Tri.mono (runStmts_typed TT sg (TT.rankOf a) _ ?_ args body [] [] {} ds hchk.1 hargs (scopeOk_empty _)) ?_
        · intro b sgb hb hrb
          exact ih b sgb hb (by omega)
        · intro v ds' _ hh
          refine ⟨hh.1, fun hr' => hh.2 ?_⟩
          simpa [hr'] using hchk.2

end Aidl.Props.Typed
