import AidlVerif.Props.LrSafeCertDefs
namespace Aidl.Props.LrSafe
open Aidl Aidl.Lr
set_option maxRecDepth 1000000 in
theorem rows_ok : Cert.rowsOK Driver.Parse.tables cert = true := by decide +kernel
set_option maxRecDepth 1000000 in
theorem eof_ok : Cert.eofOK Driver.Parse.tables cert = true := by decide +kernel
end Aidl.Props.LrSafe
