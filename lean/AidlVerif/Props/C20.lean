import AidlVerif.Spec.C20

/-!
# C20 — property theorems (about the model of `expected_token_str`)

The property as stated does NOT hold of the code (known finding K1): for three or more expected
tokens the wording omits the last-but-one. What is proved: the exact set of names the wording is
built from (`selected`), that it never contains a foreign name, that it is complete for up to two
tokens (`C20_partial`), that for three or more it is `v` without `v[len-2]` (`selected_drop`), and
the negation of the full statement with a concrete witness (`C20_negation`).
-/

namespace Aidl.Props.C20
open Aidl Aidl.Spec.C20

/-- the wording as a function of the selected names only -/
def wording (many : Bool) (s : List String) : String :=
  match s with
  | [] => ""
  | [a] => "Expected " ++ a
  | _ => (if many then "Expected one of " else "Expected ") ++ joinWith ", " s.dropLast ++ " or "
          ++ s.getLast?.getD ""

/-- the message is built from the selected names and from nothing else -/
theorem str_uses_selected (v : List String) :
    expectedTokenStr v = wording (decide (v.length ≥ 3)) (selected v) := by
  match v with
  | [] => rfl
  | [a] => rfl
  | [a, b] => simp [expectedTokenStr, wording, selected, joinWith]
  | a :: b :: c :: rest =>
    simp only [expectedTokenStr, selected]
    generalize hx : (a :: b :: c :: rest).getLast?.getD "" = x
    have hlen : (a :: b :: c :: rest).length - 2 = rest.length + 1 := by simp
    rw [hlen]
    have ht : List.take (rest.length + 1) (a :: b :: c :: rest) = a :: List.take rest.length (b :: c :: rest) := by
      simp [List.take_succ_cons]
    rw [ht]
    unfold wording
    cases htl : List.take rest.length (b :: c :: rest) with
    | nil => simp [joinWith]
    | cons y ys =>
      have e1 : (y :: (ys ++ [x])).dropLast = y :: ys := by
        have : y :: (ys ++ [x]) = (y :: ys) ++ [x] := rfl
        rw [this, List.dropLast_concat]
      have e2 : (y :: (ys ++ [x])).getLast? = some x := by
        have : y :: (ys ++ [x]) = (y :: ys) ++ [x] := rfl
        rw [this, List.getLast?_concat]
      simp [e1, e2]

/-- nothing outside the expectation vector is ever selected -/
theorem selected_sub (v : List String) : ∀ t ∈ selected v, t ∈ v := by
  intro t ht
  match v with
  | [] => simp [selected] at ht
  | [a] => simpa [selected] using ht
  | [a, b] => simpa [selected] using ht
  | a :: b :: c :: rest =>
    simp only [selected] at ht
    rcases List.mem_append.mp ht with h | h
    · exact List.mem_of_mem_take h
    · simp only [List.mem_singleton] at h
      rw [h]
      have : (a :: b :: c :: rest).getLast? = some ((a :: b :: c :: rest).getLast (by simp)) := List.getLast?_eq_some_getLast (by simp)
      rw [this]
      exact List.getLast_mem (by simp)

/-- **C20 holds for up to two expected tokens** -/
theorem C20_partial (v : List String) (h : v.length ≤ 2) : selected v = v := by
  match v with
  | [] => rfl
  | [a] => rfl
  | [a, b] => rfl
  | _ :: _ :: _ :: _ => simp at h

/-- for three or more, exactly the last-but-one token is dropped (the shape of K1) -/
theorem selected_drop (v : List String) (h : v.length ≥ 3) : selected v = v.eraseIdx (v.length - 2) := by
  match v with
  | [] => simp at h
  | [a] => simp at h
  | [a, b] => simp at h
  | a :: b :: c :: rest =>
    simp only [selected]
    rw [List.eraseIdx_eq_take_drop_succ]
    congr 1
    have hlen : (a :: b :: c :: rest).length - 2 + 1 = (a :: b :: c :: rest).length - 1 := by simp
    rw [hlen]
    have hne : (a :: b :: c :: rest) ≠ [] := by simp
    rw [List.getLast?_eq_some_getLast hne]
    simp only [Option.getD_some]
    have : ∀ (l : List String) (h : l ≠ []), [l.getLast h] = l.drop (l.length - 1) := by
      intro l h
      have e := List.dropLast_concat_getLast h
      have hl : l.dropLast.length = l.length - 1 := by simp
      conv => rhs; rw [← e]
      rw [List.drop_append_of_le_length (by simp)]
      have : List.drop (l.length - 1) l.dropLast = [] := by
        apply List.drop_eq_nil_of_le; simp
      rw [List.length_append] at *
      simp only [List.length_dropLast, List.length_cons, List.length_nil] at *
      have hpos : 0 < l.length := List.length_pos_iff.mpr h
      have e3 : l.length - 1 + (0 + 1) - 1 = l.length - 1 := by omega
      rw [e3, this]
      rfl
    exact this _ hne

/-- **the full statement fails**: with three expected tokens the middle one is not named -/
theorem C20_negation : ¬ (∀ v : List String, ∀ t ∈ v, t ∈ selected v) := by
  intro h
  have := h ["A", "B", "C"] "B" (by simp)
  simp [selected] at this

/-- the same witness on the rendered message (the recovered names are evaluated by the driver's
    self-test: `namedIn "Expected one of A or C" = [A, C]`) -/
example : expectedTokenStr ["A", "B", "C"] = "Expected one of A or C" := by decide

end Aidl.Props.C20
