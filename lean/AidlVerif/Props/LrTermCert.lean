import AidlVerif.Props.LrTerm
import AidlVerif.Props.LrSafeCert

/-!
The termination certificate of THIS run's tables is accepted by the checker `Pot.ok`, and every
token-producing entry of THIS run's lexer table is non-nullable (kernel evaluation).
-/

namespace Aidl.Props.LrTerm
open Aidl Aidl.Lr

/-- the certificate computed by the translator for the tables of this run -/
def pot : Pot :=
  { w := Gen.certWf, r := Gen.certRf, wMax := Gen.certWMax, rMax := Gen.certRMax,
    next := Gen.certNext, info := Gen.certInfo, prodsOf := Gen.certProdsOf }

set_option maxRecDepth 1000000 in
theorem pot_ok : Pot.ok Driver.Parse.tables LrSafe.cert pot = true := by decide +kernel

set_option maxRecDepth 1000000 in
theorem lex_nonnull : LexerProgress.lexNonNull Driver.Parse.tables.lex = true := by decide +kernel

theorem lexProg_run : LexProg Driver.Parse.tables :=
  fun fuel s p t rest h => LexerProgress.next_progress _ lex_nonnull fuel s p t rest h

theorem acc_ok : pot.wMax ≤ 1 ∧ pot.wMax + pot.rMax < 1023 := by decide +kernel

/-- **the simulation `accepts` inside `error_recovery` never reaches its own step bound** (tables of
    this run): the model's `getD false` on its result hides nothing -/
theorem errorCandidate_total_run (s : St) (hc : LrSafe.Chain LrSafe.cert s.states s.syms) (top : Nat) (col : Option Nat)
    (errState : Nat) (htop : top < s.states.length)
    (hsh : asShift (errorAction Driver.Parse.tables ((s.states.drop (s.states.length - 1 - top)).headD 0)) = some errState) :
    accepts Driver.Parse.tables errState (s.states.drop (s.states.length - 1 - top)) col (s.states.length + 1024) ≠ none :=
  errorCandidate_total Driver.Parse.tables LrSafe.cert pot (LrSafe.certFacts _ _ LrSafe.cert_ok)
    (potFacts _ _ _ pot_ok) acc_ok.1 acc_ok.2 s hc top col errState htop hsh

end Aidl.Props.LrTerm
