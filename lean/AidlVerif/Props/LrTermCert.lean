import AidlVerif.Props.LrTerm
import AidlVerif.Props.LrSafeCertDefs

/-!
The termination certificate of THIS run's tables is accepted by the checker `Pot.ok`, and every
token-producing entry of THIS run's lexer table is non-nullable (kernel evaluation).
-/

namespace Aidl.Props.LrTerm
open Aidl Aidl.Lr

/-- the certificate computed by the translator for the tables of this run -/
def pot : Pot :=
  { w := Gen.certWf, r := Gen.certRf, wMax := Gen.certWMax, rMax := Gen.certRMax,
    next := Gen.certNext, info := Gen.certInfo, prodsOf := Gen.certProdsOf }

set_option maxRecDepth 1000000 in
theorem pot_ok : Pot.ok Driver.Parse.tables LrSafe.cert pot = true := by decide +kernel

set_option maxRecDepth 1000000 in
theorem lex_nonnull : LexerProgress.lexNonNull Driver.Parse.tables.lex = true := by decide +kernel

theorem lexProg_run : LexProg Driver.Parse.tables :=
  fun fuel s p t rest h => LexerProgress.next_progress _ lex_nonnull fuel s p t rest h

end Aidl.Props.LrTerm
