import AidlVerif.Props.JavadocSpec

/-!
# C18 — the closed form of `parse_javadoc` on structured bodies

A body laid out the usual way — every line introduced by ` * `, paragraphs separated by one ` *` line,
LF or CRLF line ends — is normalised to: the lines of a paragraph joined by single blanks, the
paragraphs joined by newlines, every line verbatim (any Unicode content, inner spacing untouched).
Proved on the regex-free specification (`parseJavadocSpec`), hence, by `parseJavadoc_eq_spec`, of the
model of `parse_javadoc` itself.
-/

namespace Aidl.Props.JavadocForm
open Aidl.Regex Aidl.Javadoc Aidl.Props.JavadocTotal Aidl.Props.LexerBounds Aidl.Props.LexerProgress
  Aidl.Props.JavadocWords Aidl.Props.JavadocSpec

/-! ### steps of a scan, of `split` and of `replace_all`, without byte arithmetic -/

/-- the anchored matcher fails at every position inside `pre` -/
def FailsIn (at_ : List Char → Nat → Option Nat) (pre rest : List Char) : Prop :=
  ∀ p1 p2 q, pre = p1 ++ p2 → p2 ≠ [] → at_ (p2 ++ rest) q = none

theorem scanWith_skip (at_ : List Char → Nat → Option Nat) : ∀ (pre rest : List Char) (p : Nat),
    FailsIn at_ pre rest → scanWith at_ (pre ++ rest) p = scanWith at_ rest (p + utf8Len pre) := by
  intro pre
  induction pre with
  | nil => intro rest p _; simp [utf8Len_nil]
  | cons c pre ih =>
    intro rest p h
    have h0 : at_ (c :: (pre ++ rest)) p = none := by
      have := h [] (c :: pre) p rfl (by simp)
      rwa [List.cons_append] at this
    rw [List.cons_append, scanWith, h0]
    simp only
    rw [ih rest _ (fun p1 p2 q hp hne => h (c :: p1) p2 q (by rw [hp]; rfl) hne), utf8Len_cons, Nat.add_assoc]

theorem scanWith_hit (at_ : List Char → Nat → Option Nat) (s : List Char) (p e : Nat) (hs : s ≠ [])
    (h : at_ s p = some e) : scanWith at_ s p = some (p, e) := by
  cases s with
  | nil => exact absurd rfl hs
  | cons c t => rw [scanWith, h]

/-- a search that skips `pre` and then matches `w` -/
theorem scan_found (at_ : List Char → Nat → Option Nat) (pre w post : List Char) (hw : w ≠ [])
    (hpre : FailsIn at_ pre (w ++ post)) (hhit : ∀ q, at_ (w ++ post) q = some (q + utf8Len w)) :
    scanWith at_ (pre ++ w ++ post) 0 = some (utf8Len pre, utf8Len pre + utf8Len w) := by
  rw [List.append_assoc, scanWith_skip at_ pre (w ++ post) 0 hpre, Nat.zero_add,
    scanWith_hit at_ (w ++ post) _ _ (by simp [hw]) (hhit _)]

theorem utf8Len_ne_of_ne_nil (w : List Char) (hw : w ≠ []) : 0 < utf8Len w := by
  cases w with
  | nil => exact absurd rfl hw
  | cons c t => rw [utf8Len_cons]; have := utf8Size_pos c; omega

theorem splitWith_step (find : List Char → Option (Nat × Nat)) (n : Nat) (pre w post : List Char) (hw : w ≠ [])
    (h : find (pre ++ w ++ post) = some (utf8Len pre, utf8Len pre + utf8Len w)) :
    splitWith find (n + 1) (pre ++ w ++ post) = pre :: splitWith find n post := by
  have := utf8Len_ne_of_ne_nil w hw
  rw [splitWith, h]
  simp only
  rw [if_neg (by omega), List.append_assoc, takeBytes_prefix, ← List.append_assoc, ← utf8Len_append, dropBytes_prefix]

theorem replaceWith_step (find : List Char → Option (Nat × Nat)) (rep : List Char → List Char) (n : Nat)
    (pre w post : List Char) (hw : w ≠ [])
    (h : find (pre ++ w ++ post) = some (utf8Len pre, utf8Len pre + utf8Len w)) :
    replaceWith find rep (n + 1) (pre ++ w ++ post) = pre ++ rep w ++ replaceWith find rep n post := by
  have := utf8Len_ne_of_ne_nil w hw
  rw [replaceWith, h]
  simp only
  rw [if_neg (by omega), Nat.add_sub_cancel_left]
  congr 1
  · congr 1
    · rw [List.append_assoc, takeBytes_prefix]
    · rw [List.append_assoc, dropBytes_prefix, takeBytes_prefix]
  · rw [← utf8Len_append, dropBytes_prefix]

theorem splitWith_none (find : List Char → Option (Nat × Nat)) (n : Nat) (s : List Char) (h : find s = none) :
    splitWith find n s = [s] := by
  cases n with
  | zero => rfl
  | succ n => rw [splitWith, h]

theorem replaceWith_none (find : List Char → Option (Nat × Nat)) (rep : List Char → List Char) (n : Nat) (s : List Char)
    (h : find s = none) : replaceWith find rep n s = s := by
  cases n with
  | zero => rfl
  | succ n => rw [replaceWith, h]

/-- a scan over a text in which the anchored matcher fails everywhere -/
theorem scanWith_none (at_ : List Char → Nat → Option Nat) (s : List Char) (h : FailsIn at_ s []) (hnil : ∀ q, at_ [] q = none) :
    scanWith at_ s 0 = none := by
  have := scanWith_skip at_ s [] 0 h
  rw [List.append_nil] at this
  rw [this, scanWith, hnil]
  rfl

theorem FailsIn_append (at_ : List Char → Nat → Option Nat) (a b rest : List Char)
    (ha : FailsIn at_ a (b ++ rest)) (hb : FailsIn at_ b rest) : FailsIn at_ (a ++ b) rest := by
  intro p1 p2 q hsplit hne
  rcases List.append_eq_append_iff.mp hsplit with ⟨a', h1, h2⟩ | ⟨c', h1, h2⟩
  · -- p1 = a ++ a', b = a' ++ p2
    exact hb a' p2 q h2 hne
  · -- a = p1 ++ c', p2 = c' ++ b
    by_cases hc : c' = []
    · subst hc
      simp only [List.nil_append] at h2
      subst h2
      exact hb [] _ q (by simp) hne
    · have := ha p1 c' q h1 hc
      rw [h2, List.append_assoc]
      exact this

theorem FailsIn_nil (at_ : List Char → Nat → Option Nat) (rest : List Char) : FailsIn at_ [] rest := by
  intro p1 p2 q h hne
  have : p2 = [] := by
    have := congrArg List.length h
    simp at this
    exact List.length_eq_zero_iff.mp (by omega)
  exact absurd this hne

/-- when the matcher fails on every text that begins with a character of `a` -/
theorem FailsIn_of_heads (at_ : List Char → Nat → Option Nat) (a rest : List Char)
    (h : ∀ c ∈ a, ∀ t q, at_ (c :: t) q = none) : FailsIn at_ a rest := by
  intro p1 p2 q hsplit hne
  cases p2 with
  | nil => exact absurd rfl hne
  | cons c t =>
    rw [List.cons_append]
    exact h c (by rw [hsplit]; simp) _ q

/-! ### the layout -/

def EolOk (eol : List Char) : Prop := eol = ['\n'] ∨ eol = ['\r', '\n']

structure GoodLine (l : List Char) : Prop where
  ne : l ≠ []
  chars : ∀ c ∈ l, c ≠ '\n' ∧ c ≠ '\r'
  first : ∀ c t, l = c :: t → isTrimChar c = false
  last : ∀ c t, l = t ++ [c] → isTrimChar c = false

def lsep (eol : List Char) : List Char := eol ++ [' ', '*', ' ']
def pbreak (eol : List Char) : List Char := eol ++ [' ', '*'] ++ eol
def renderPar (eol : List Char) (ls : List (List Char)) : List Char := intercalate (lsep eol) ls

/-- what follows a paragraph: the separator line and the next paragraph, or the closing line -/
def bodyTail (eol : List Char) : List (List (List Char)) → List Char
  | [] => eol ++ [' ']
  | p :: ps => pbreak eol ++ [' ', '*', ' '] ++ renderPar eol p ++ bodyTail eol ps

def renderBody (eol : List Char) : List (List (List Char)) → List Char
  | [] => []
  | p :: ps => lsep eol ++ renderPar eol p ++ bodyTail eol ps

/-! ### the paragraph separator -/

theorem nlPrefix_none_of_head (c : Char) (t : List Char) (h1 : c ≠ '\r') (h2 : c ≠ '\n') : nlPrefix (c :: t) = none := by
  unfold nlPrefix
  split
  · rename_i heq; cases heq; exact absurd rfl h1
  · rename_i heq; cases heq; exact absurd rfl h2
  · rfl

theorem parAt_head (c : Char) (t : List Char) (q : Nat) (h1 : c ≠ '\r') (h2 : c ≠ '\n') : parAt (c :: t) q = none := by
  simp [parAt, nlPrefix_none_of_head c t h1 h2]

theorem isC3_of_blank (c : Char) (h : c = ' ' ∨ c = '*' ∨ c = '\t') : isC3 c = true := by
  rcases h with rfl | rfl | rfl <;> decide

theorem trim_false_notC3 (c : Char) (h : isTrimChar c = false) : isC3 c = false ∧ c ≠ '\r' ∧ c ≠ '\n' := by
  refine ⟨?_, ?_, ?_⟩
  · cases hc : isC3 c with
    | false => rfl
    | true =>
      have := trim_of_inCls cls3 (by decide) c hc
      rw [IsTrim, h] at this; cases this
  · intro e; subst e; revert h; decide
  · intro e; subst e; revert h; decide

/-- after a line break and blanks / stars comes a line: no paragraph separator here -/
theorem parAt_break_line (pre blanks l rest : List Char) (q : Nat) (hpre : pre = ['\n'] ∨ pre = ['\r', '\n'])
    (hb : ∀ c ∈ blanks, isC3 c = true) (hl : GoodLine l) : parAt (pre ++ blanks ++ l ++ rest) q = none := by
  obtain ⟨c, t, hct⟩ : ∃ c t, l = c :: t := by
    cases l with
    | nil => exact absurd rfl hl.ne
    | cons c t => exact ⟨c, t, rfl⟩
  have hc := trim_false_notC3 c (hl.first c t hct)
  have hdw : (blanks ++ l ++ rest).dropWhile isC3 = l ++ rest := by
    rw [List.append_assoc, hct]
    clear hl hct
    induction blanks with
    | nil => simp [List.dropWhile_cons_of_neg, hc.1]
    | cons b bs ih =>
      rw [List.cons_append, List.dropWhile_cons_of_pos (hb b (by simp))]
      exact ih (fun x hx => hb x (by simp [hx]))
  have hn2 : nlPrefix (l ++ rest) = none := by
    rw [hct, List.cons_append]
    exact nlPrefix_none_of_head c _ hc.2.1 hc.2.2
  rcases hpre with rfl | rfl
  · show parAt ('\n' :: (blanks ++ l ++ rest)) q = none
    unfold parAt
    rw [show nlPrefix ('\n' :: (blanks ++ l ++ rest)) = some (blanks ++ l ++ rest, 1) from rfl]
    simp only [hdw, hn2]
  · show parAt ('\r' :: '\n' :: (blanks ++ l ++ rest)) q = none
    unfold parAt
    rw [show nlPrefix ('\r' :: '\n' :: (blanks ++ l ++ rest)) = some (blanks ++ l ++ rest, 2) from rfl]
    simp only [hdw, hn2]

theorem FailsIn_eol (at_ : List Char → Nat → Option Nat) (eol rest : List Char) (he : EolOk eol)
    (h1 : ∀ q, at_ (eol ++ rest) q = none) (h2 : ∀ q, at_ ('\n' :: rest) q = none) : FailsIn at_ eol rest := by
  intro p1 p2 q hsplit hne
  rcases he with rfl | rfl
  · -- eol = [\n]
    cases p1 with
    | nil => simp only [List.nil_append] at hsplit; subst hsplit; exact h1 q
    | cons a p1' =>
      have : p2 = [] := by
        have hl := congrArg List.length hsplit
        simp only [List.length_cons, List.length_append, List.length_nil] at hl
        exact List.length_eq_zero_iff.mp (by omega)
      exact absurd this hne
  · cases p1 with
    | nil => simp only [List.nil_append] at hsplit; subst hsplit; exact h1 q
    | cons a p1' =>
      cases p1' with
      | nil =>
        simp only [List.cons_append, List.nil_append, List.cons.injEq] at hsplit
        obtain ⟨_, rfl⟩ := hsplit
        exact h2 q
      | cons b p1'' =>
        have : p2 = [] := by
          have hl := congrArg List.length hsplit
          simp only [List.length_cons, List.length_append, List.length_nil] at hl
          exact List.length_eq_zero_iff.mp (by omega)
        exact absurd this hne

theorem goodLine_heads_par (l rest : List Char) (hl : GoodLine l) : FailsIn parAt l rest :=
  FailsIn_of_heads parAt l rest (fun c hc t q => parAt_head c t q (hl.chars c hc).2 (hl.chars c hc).1)

theorem blanks3 : ∀ c ∈ [' ', '*', ' '], isC3 c = true := by decide

theorem failsIn_par_blanks (rest : List Char) : FailsIn parAt [' ', '*', ' '] rest :=
  FailsIn_of_heads parAt _ rest (fun c hc t q => parAt_head c t q
    (by intro e; subst e; revert hc; decide) (by intro e; subst e; revert hc; decide))

theorem failsIn_par_lsep (eol l rest : List Char) (he : EolOk eol) (hl : GoodLine l) : FailsIn parAt (lsep eol) (l ++ rest) := by
  unfold lsep
  apply FailsIn_append
  · apply FailsIn_eol parAt eol _ he
    · intro q
      have := parAt_break_line eol [' ', '*', ' '] l rest q he blanks3 hl
      simpa [List.append_assoc] using this
    · intro q
      have := parAt_break_line ['\n'] [' ', '*', ' '] l rest q (Or.inl rfl) blanks3 hl
      simpa [List.append_assoc] using this
  · exact failsIn_par_blanks _

theorem renderPar_cons2 (eol a b : List Char) (ls : List (List Char)) :
    renderPar eol (a :: b :: ls) = a ++ lsep eol ++ renderPar eol (b :: ls) := rfl

theorem renderPar_single (eol a : List Char) : renderPar eol [a] = a := rfl

theorem renderPar_head (eol l : List Char) (ls : List (List Char)) : ∃ r, renderPar eol (l :: ls) = l ++ r := by
  cases ls with
  | nil => exact ⟨[], by simp [renderPar_single]⟩
  | cons b ls => exact ⟨lsep eol ++ renderPar eol (b :: ls), by rw [renderPar_cons2, List.append_assoc]⟩

theorem failsIn_par_renderPar (eol : List Char) (he : EolOk eol) : ∀ (ls : List (List Char)) (rest : List Char),
    ls ≠ [] → (∀ l ∈ ls, GoodLine l) → FailsIn parAt (renderPar eol ls) rest := by
  intro ls
  induction ls with
  | nil => intro rest h; exact absurd rfl h
  | cons a ls ih =>
    intro rest _ hg
    cases ls with
    | nil => rw [renderPar_single]; exact goodLine_heads_par a rest (hg a (by simp))
    | cons b ls' =>
      rw [renderPar_cons2]
      have hb : GoodLine b := hg b (by simp)
      obtain ⟨r, hr⟩ := renderPar_head eol b ls'
      apply FailsIn_append
      · apply FailsIn_append
        · exact goodLine_heads_par a _ (hg a (by simp))
        · rw [hr, List.append_assoc]
          exact failsIn_par_lsep eol b (r ++ rest) he hb
      · exact ih rest (by simp) (fun l hl => hg l (by simp [hl]))

theorem parAt_pbreak (eol post : List Char) (he : EolOk eol) (q : Nat) :
    parAt (pbreak eol ++ post) q = some (q + utf8Len (pbreak eol)) := by
  rcases he with rfl | rfl
  · show parAt ('\n' :: ' ' :: '*' :: '\n' :: post) q = _
    unfold parAt
    rw [show nlPrefix ('\n' :: ' ' :: '*' :: '\n' :: post) = some (' ' :: '*' :: '\n' :: post, 1) from rfl]
    have h1 : (' ' :: '*' :: '\n' :: post).dropWhile isC3 = '\n' :: post := by
      rw [List.dropWhile_cons_of_pos (by decide), List.dropWhile_cons_of_pos (by decide), List.dropWhile_cons_of_neg (by decide)]
    have h2 : (' ' :: '*' :: '\n' :: post).takeWhile isC3 = [' ', '*'] := by
      rw [List.takeWhile_cons_of_pos (by decide), List.takeWhile_cons_of_pos (by decide), List.takeWhile_cons_of_neg (by decide)]
    simp only [h1, h2]
    rw [show nlPrefix ('\n' :: post) = some (post, 1) from rfl]
    simp only
    have e1 : utf8Len (pbreak ['\n']) = 4 := by decide
    have e2 : utf8Len [' ', '*'] = 2 := by decide
    rw [e1, e2]
  · show parAt ('\r' :: '\n' :: ' ' :: '*' :: '\r' :: '\n' :: post) q = _
    unfold parAt
    rw [show nlPrefix ('\r' :: '\n' :: ' ' :: '*' :: '\r' :: '\n' :: post) = some (' ' :: '*' :: '\r' :: '\n' :: post, 2) from rfl]
    have h1 : (' ' :: '*' :: '\r' :: '\n' :: post).dropWhile isC3 = '\r' :: '\n' :: post := by
      rw [List.dropWhile_cons_of_pos (by decide), List.dropWhile_cons_of_pos (by decide), List.dropWhile_cons_of_neg (by decide)]
    have h2 : (' ' :: '*' :: '\r' :: '\n' :: post).takeWhile isC3 = [' ', '*'] := by
      rw [List.takeWhile_cons_of_pos (by decide), List.takeWhile_cons_of_pos (by decide), List.takeWhile_cons_of_neg (by decide)]
    simp only [h1, h2]
    rw [show nlPrefix ('\r' :: '\n' :: post) = some (post, 2) from rfl]
    simp only
    have e1 : utf8Len (pbreak ['\r', '\n']) = 6 := by decide
    have e2 : utf8Len [' ', '*'] = 2 := by decide
    rw [e1, e2]

/-! ### `split`: one piece per paragraph -/

/-- the pieces `split` produces: every paragraph with what introduces it; the last one also holds the closing line -/
def pieces (eol : List Char) : List Char → List (List Char) → List (List (List Char)) → List (List Char)
  | lead, p, [] => [lead ++ renderPar eol p ++ (eol ++ [' '])]
  | lead, p, p2 :: ps => (lead ++ renderPar eol p) :: pieces eol [' ', '*', ' '] p2 ps

theorem parAt_nil (q : Nat) : parAt [] q = none := rfl

theorem failsIn_par_close (eol : List Char) (he : EolOk eol) : FailsIn parAt (eol ++ [' ']) [] := by
  apply FailsIn_append
  · apply FailsIn_eol parAt eol _ he
    · intro q; rcases he with rfl | rfl <;> rfl
    · intro q; rfl
  · exact FailsIn_of_heads parAt _ _ (fun c hc t q => parAt_head c t q
      (by intro e; subst e; revert hc; decide) (by intro e; subst e; revert hc; decide))

theorem pbreak_ne (eol : List Char) (he : EolOk eol) : pbreak eol ≠ [] := by
  rcases he with rfl | rfl <;> decide

theorem split_body (eol : List Char) (he : EolOk eol) : ∀ (ps : List (List (List Char))) (lead : List Char) (p : List (List Char)) (n : Nat),
    (∀ r, FailsIn parAt lead (renderPar eol p ++ r)) → p ≠ [] → (∀ l ∈ p, GoodLine l) →
    (∀ p' ∈ ps, p' ≠ [] ∧ ∀ l ∈ p', GoodLine l) → ps.length ≤ n →
    splitWith scanPar n (lead ++ renderPar eol p ++ bodyTail eol ps) = pieces eol lead p ps := by
  intro ps
  induction ps with
  | nil =>
    intro lead p n hlead hp hg _ _
    simp only [bodyTail, pieces]
    apply splitWith_none
    unfold scanPar
    apply scanWith_none _ _ _ parAt_nil
    apply FailsIn_append
    · apply FailsIn_append
      · exact hlead _
      · exact failsIn_par_renderPar eol he p _ hp hg
    · exact failsIn_par_close eol he
  | cons p2 ps ih =>
    intro lead p n hlead hp hg hps hn
    cases n with
    | zero => simp at hn
    | succ n =>
      have hp2 := hps p2 (by simp)
      simp only [bodyTail, pieces]
      have hshape : lead ++ renderPar eol p ++ (pbreak eol ++ [' ', '*', ' '] ++ renderPar eol p2 ++ bodyTail eol ps)
          = (lead ++ renderPar eol p) ++ pbreak eol ++ ([' ', '*', ' '] ++ renderPar eol p2 ++ bodyTail eol ps) := by
        simp [List.append_assoc]
      rw [hshape, splitWith_step scanPar n _ _ _ (pbreak_ne eol he)]
      · rw [ih [' ', '*', ' '] p2 n (fun r => failsIn_par_blanks _) hp2.1 hp2.2
          (fun p' hp' => hps p' (by simp [hp'])) (by simp at hn; omega)]
      · unfold scanPar
        apply scan_found parAt _ _ _ (pbreak_ne eol he)
        · apply FailsIn_append
          · exact hlead _
          · exact failsIn_par_renderPar eol he p _ hp hg
        · intro q; exact parAt_pbreak eol _ he q

/-! ### the line separator inside a paragraph -/

theorem isNoise_iff_trim (c : Char) : isNoise c = true ↔ isTrimChar c = true := by
  constructor
  · intro h; exact trim_of_inCls cls5 (by decide) c h
  · intro h
    simp only [isTrimChar, Bool.or_eq_true, decide_eq_true_eq] at h
    rcases h with (((rfl | rfl) | rfl) | rfl) | rfl <;> decide

theorem isNoise_false_of_trim_false (c : Char) (h : isTrimChar c = false) : isNoise c = false := by
  cases hn : isNoise c with
  | false => rfl
  | true => rw [(isNoise_iff_trim c).mp hn] at h; cases h

theorem mem_takeWhile_stop {α} (q : α → Bool) : ∀ (a : List α) (b : α) (r : List α) (x : α), q b = false →
    x ∈ (a ++ b :: r).takeWhile q → x ∈ a
  | [], b, r, x, hb, hx => by
    rw [List.nil_append, List.takeWhile_cons_of_neg (by simp [hb])] at hx; cases hx
  | a0 :: a, b, r, x, hb, hx => by
    rw [List.cons_append] at hx
    by_cases h0 : q a0 = true
    · rw [List.takeWhile_cons_of_pos h0] at hx
      rcases List.mem_cons.mp hx with rfl | hx
      · simp
      · exact List.mem_cons_of_mem _ (mem_takeWhile_stop q a b r x hb hx)
    · rw [List.takeWhile_cons_of_neg h0] at hx; cases hx

theorem noiseAt_nil (q : Nat) : noiseAt [] q = none := rfl

/-- inside a line there is no run of blanks that holds a line break -/
theorem failsIn_noise_line (l rest : List Char) (hl : GoodLine l) : FailsIn noiseAt l rest := by
  intro p1 p2 q hsplit hne
  obtain ⟨p2', last, hp2⟩ : ∃ p2' last, p2 = p2' ++ [last] := by
    rcases List.eq_nil_or_concat p2 with h | ⟨a, b, h⟩
    · exact absurd h hne
    · exact ⟨a, b, by simpa using h⟩
  have hlast : isNoise last = false :=
    isNoise_false_of_trim_false last (hl.last last (p1 ++ p2') (by rw [hsplit, hp2, List.append_assoc]))
  unfold noiseAt
  rw [if_neg]
  intro hmem
  rw [hp2, List.append_assoc, List.singleton_append] at hmem
  have hin := mem_takeWhile_stop isNoise p2' last rest '\n' hlast hmem
  exact (hl.chars '\n' (by rw [hsplit, hp2]; simp [hin])).1 rfl

theorem takeWhile_noise_lsep (eol l rest : List Char) (he : EolOk eol) (hl : GoodLine l) :
    (lsep eol ++ l ++ rest).takeWhile isNoise = lsep eol := by
  obtain ⟨c, t, hct⟩ : ∃ c t, l = c :: t := by
    cases l with
    | nil => exact absurd rfl hl.ne
    | cons c t => exact ⟨c, t, rfl⟩
  have hc : isNoise c = false := isNoise_false_of_trim_false c (hl.first c t hct)
  rw [hct]
  rcases he with rfl | rfl
  · show ('\n' :: ' ' :: '*' :: ' ' :: (c :: t ++ rest)).takeWhile isNoise = _
    rw [List.takeWhile_cons_of_pos (by decide), List.takeWhile_cons_of_pos (by decide), List.takeWhile_cons_of_pos (by decide),
      List.takeWhile_cons_of_pos (by decide), List.cons_append, List.takeWhile_cons_of_neg (by simp [hc])]
    rfl
  · show ('\r' :: '\n' :: ' ' :: '*' :: ' ' :: (c :: t ++ rest)).takeWhile isNoise = _
    rw [List.takeWhile_cons_of_pos (by decide), List.takeWhile_cons_of_pos (by decide), List.takeWhile_cons_of_pos (by decide),
      List.takeWhile_cons_of_pos (by decide), List.takeWhile_cons_of_pos (by decide), List.cons_append,
      List.takeWhile_cons_of_neg (by simp [hc])]
    rfl

theorem noiseAt_lsep (eol l rest : List Char) (he : EolOk eol) (hl : GoodLine l) (q : Nat) :
    noiseAt (lsep eol ++ (l ++ rest)) q = some (q + utf8Len (lsep eol)) := by
  unfold noiseAt
  rw [← List.append_assoc, takeWhile_noise_lsep eol l rest he hl, if_pos]
  rcases he with rfl | rfl <;> decide

theorem lsep_ne (eol : List Char) : lsep eol ≠ [] := by simp [lsep]

theorem jint_cons2 (sep a b : List Char) (ls : List (List Char)) :
    intercalate sep (a :: b :: ls) = a ++ sep ++ intercalate sep (b :: ls) := rfl

/-- the lines of a paragraph come out joined by single blanks -/
theorem replace_par (eol : List Char) (he : EolOk eol) : ∀ (ls : List (List Char)) (n : Nat), ls ≠ [] → (∀ l ∈ ls, GoodLine l) →
    ls.length ≤ n → replaceWith scanNoise (fun _ => [' ']) n (renderPar eol ls) = intercalate [' '] ls := by
  intro ls
  induction ls with
  | nil => intro n h; exact absurd rfl h
  | cons a ls ih =>
    intro n _ hg hn
    cases ls with
    | nil =>
      rw [renderPar_single]
      show _ = a
      apply replaceWith_none
      unfold scanNoise
      exact scanWith_none noiseAt a (failsIn_noise_line a [] (hg a (by simp))) noiseAt_nil
    | cons b ls' =>
      cases n with
      | zero => simp at hn
      | succ n =>
        obtain ⟨r, hr⟩ := renderPar_head eol b ls'
        have hb : GoodLine b := hg b (by simp)
        rw [renderPar_cons2, replaceWith_step scanNoise _ n a (lsep eol) _ (lsep_ne eol)]
        · rw [ih n (by simp) (fun l hl => hg l (by simp [hl])) (by simp at hn ⊢; omega), jint_cons2]
        · unfold scanNoise
          apply scan_found noiseAt _ _ _ (lsep_ne eol)
          · exact failsIn_noise_line a _ (hg a (by simp))
          · intro q; rw [hr]; exact noiseAt_lsep eol b r he hb q

/-! ### trimming a piece, and the `@` pass -/

theorem dropWhile_lead {α} (q : α → Bool) : ∀ (lead : List α) (c : α) (t : List α), (∀ x ∈ lead, q x = true) → q c = false →
    (lead ++ c :: t).dropWhile q = c :: t
  | [], c, t, _, hc => by rw [List.nil_append, List.dropWhile_cons_of_neg (by simp [hc])]
  | a :: lead, c, t, hl, hc => by
    rw [List.cons_append, List.dropWhile_cons_of_pos (hl a (by simp))]
    exact dropWhile_lead q lead c t (fun x hx => hl x (by simp [hx])) hc

/-- trimming removes exactly the decoration around a core that begins and ends with other characters -/
theorem trimMatches_core (lead core trail : List Char) (c0 : Char) (t0 : List Char) (c1 : Char) (t1 : List Char)
    (hlead : ∀ x ∈ lead, isTrimChar x = true) (htrail : ∀ x ∈ trail, isTrimChar x = true)
    (h0 : core = c0 :: t0) (hc0 : isTrimChar c0 = false) (h1 : core = t1 ++ [c1]) (hc1 : isTrimChar c1 = false) :
    trimMatches (lead ++ core ++ trail) = core := by
  unfold trimMatches
  have e1 : (lead ++ core ++ trail).dropWhile isTrimChar = core ++ trail := by
    rw [List.append_assoc, h0, List.cons_append, dropWhile_lead isTrimChar lead c0 _ hlead hc0]
  rw [e1]
  have e2 : (core ++ trail).reverse = trail.reverse ++ c1 :: t1.reverse := by
    rw [h1]; simp
  rw [e2, dropWhile_lead isTrimChar trail.reverse c1 _ (fun x hx => htrail x (List.mem_reverse.mp hx)) hc1]
  rw [h1]; simp

theorem renderPar_first (eol : List Char) (c : Char) (t : List Char) (ls : List (List Char)) :
    ∃ t', renderPar eol ((c :: t) :: ls) = c :: t' := by
  obtain ⟨r, hr⟩ := renderPar_head eol (c :: t) ls
  exact ⟨t ++ r, by rw [hr]; rfl⟩

theorem renderPar_last (eol : List Char) : ∀ (ls : List (List Char)) (l : List Char) (c : Char) (t : List Char),
    ls.getLast? = some l → l = t ++ [c] → ∃ t', renderPar eol ls = t' ++ [c]
  | [], _, _, _, h, _ => by cases h
  | [a], l, c, t, h, hl => by
    simp only [List.getLast?_singleton, Option.some.injEq] at h
    subst h
    exact ⟨t, by rw [renderPar_single, hl]⟩
  | a :: b :: ls, l, c, t, h, hl => by
    rw [List.getLast?_cons_cons] at h
    obtain ⟨t', ht'⟩ := renderPar_last eol (b :: ls) l c t h hl
    exact ⟨a ++ lsep eol ++ t', by rw [renderPar_cons2, ht']; simp [List.append_assoc]⟩

theorem atAt_nil (q : Nat) : atAt [] q = none := rfl

theorem atAt_needs_at (s : List Char) (q : Nat) (h : '@' ∉ s) : atAt s q = none := by
  unfold atAt
  cases s with
  | nil => rfl
  | cons c t =>
    simp only
    split
    · rfl
    · split
      · rename_i d r hd
        split
        · rename_i hat
          subst hat
          have : '@' ∈ t.dropWhile isWs := by rw [hd]; simp
          exact absurd (List.mem_cons_of_mem _ ((List.dropWhile_sublist _).subset this)) h
        · rfl
      · rfl

theorem failsIn_at (s : List Char) (h : '@' ∉ s) : FailsIn atAt s [] := by
  intro p1 p2 q hsplit _
  rw [List.append_nil]
  exact atAt_needs_at p2 q (fun hm => h (by rw [hsplit]; simp [hm]))

/-! ### the `@` pass: a tag clause goes to a line of its own -/

/-- a line of the body: plain text without `@`, or a tag clause `@…` whose rest has no `@` -/
def LineOk (l : List Char) : Prop :=
  (GoodLine l ∧ '@' ∉ l) ∨ (∃ t, l = '@' :: t ∧ GoodLine t ∧ '@' ∉ t)

def isTag (l : List Char) : Bool := l.head? == some '@'

theorem LineOk.good {l : List Char} (h : LineOk l) : GoodLine l := by
  rcases h with ⟨hg, _⟩ | ⟨t, rfl, hg, _⟩
  · exact hg
  · refine ⟨by simp, ?_, ?_, ?_⟩
    · intro c hc
      rcases List.mem_cons.mp hc with rfl | hc
      · exact ⟨by decide, by decide⟩
      · exact hg.chars c hc
    · intro c t' h; cases h; decide
    · intro c t' h
      rcases List.eq_nil_or_concat t with ht | ⟨a, b, ht⟩
      · exact absurd ht hg.ne
      · have ht' : t = a ++ [b] := by simpa using ht
        have h3 : ('@' :: a) ++ [b] = t' ++ [c] := by rw [← h, ht']; rfl
        have : c = b := by
          have := List.append_inj_right' h3 rfl
          simpa using this.symm
        subst this
        exact hg.last c a ht'

/-- the joined lines of a paragraph after the `@` pass: a blank before a plain line, a newline before a tag -/
def tailAt : List (List Char) → List Char
  | [] => []
  | b :: ls => (if isTag b then ['\n'] else [' ']) ++ b ++ tailAt ls

def tailJoin : List (List Char) → List Char
  | [] => []
  | b :: ls => [' '] ++ b ++ tailJoin ls

theorem jint_eq_tailJoin : ∀ (a : List Char) (ls : List (List Char)), intercalate [' '] (a :: ls) = a ++ tailJoin ls
  | a, [] => by simp [intercalate, tailJoin]
  | a, b :: ls => by rw [jint_cons2, jint_eq_tailJoin b ls, tailJoin]; simp [List.append_assoc]

/-- the matchers report positions relative to where they start -/
def Equivariant (at_ : List Char → Nat → Option Nat) : Prop :=
  ∀ s p d, at_ s (p + d) = (at_ s p).map (· + d)

theorem atAt_equivariant : Equivariant atAt := by
  intro s p d
  unfold atAt
  cases s with
  | nil => rfl
  | cons c t =>
    simp only
    split
    · rfl
    · split
      · split
        · simp only [Option.map_some]; congr 1; omega
        · rfl
      · rfl

theorem scanWith_shift (at_ : List Char → Nat → Option Nat) (he : Equivariant at_) : ∀ (s : List Char) (p d : Nat),
    scanWith at_ s (p + d) = (scanWith at_ s p).map (fun ab => (ab.1 + d, ab.2 + d)) := by
  intro s
  induction s with
  | nil =>
    intro p d
    simp only [scanWith, he [] p d]
    cases at_ [] p <;> rfl
  | cons c s ih =>
    intro p d
    simp only [scanWith, he (c :: s) p d]
    cases at_ (c :: s) p with
    | some e => rfl
    | none =>
      simp only [Option.map_none]
      rw [show p + d + c.utf8Size = (p + c.utf8Size) + d by omega, ih]

theorem takeBytes_append_len : ∀ (pre rest : List Char) (a : Nat),
    takeBytes (utf8Len pre + a) (pre ++ rest) = pre ++ takeBytes a rest
  | [], rest, a => by simp [utf8Len_nil]
  | c :: cs, rest, a => by
    have hpos := utf8Size_pos c
    obtain ⟨n, hn⟩ : ∃ n, utf8Len (c :: cs) + a = n + 1 := ⟨utf8Len (c :: cs) + a - 1, by rw [utf8Len_cons]; omega⟩
    rw [hn, List.cons_append, takeBytes]
    have : n + 1 - c.utf8Size = utf8Len cs + a := by rw [utf8Len_cons] at hn; omega
    rw [this, takeBytes_append_len cs rest a]
    rfl

theorem dropBytes_append_len : ∀ (pre rest : List Char) (b : Nat),
    dropBytes (utf8Len pre + b) (pre ++ rest) = dropBytes b rest
  | [], rest, b => by simp [utf8Len_nil]
  | c :: cs, rest, b => by
    have hpos := utf8Size_pos c
    obtain ⟨n, hn⟩ : ∃ n, utf8Len (c :: cs) + b = n + 1 := ⟨utf8Len (c :: cs) + b - 1, by rw [utf8Len_cons]; omega⟩
    rw [hn, List.cons_append, dropBytes]
    have : n + 1 - c.utf8Size = utf8Len cs + b := by rw [utf8Len_cons] at hn; omega
    rw [this, dropBytes_append_len cs rest b]

/-- `replace_all` passes over a stretch of text in which nothing matches -/
theorem replaceWith_skip (at_ : List Char → Nat → Option Nat) (he : Equivariant at_) (rep : List Char → List Char)
    (n : Nat) (pre rest : List Char) (hf : FailsIn at_ pre rest) :
    replaceWith (fun s => scanWith at_ s 0) rep n (pre ++ rest) = pre ++ replaceWith (fun s => scanWith at_ s 0) rep n rest := by
  cases n with
  | zero => rfl
  | succ n =>
    rw [replaceWith, replaceWith]
    rw [scanWith_skip at_ pre rest 0 hf, scanWith_shift at_ he rest 0 (utf8Len pre)]
    cases scanWith at_ rest 0 with
    | none => rfl
    | some ab =>
      obtain ⟨a, b⟩ := ab
      simp only [Option.map_some]
      by_cases hab : b = a
      · subst hab; simp
      · rw [if_neg (by omega), if_neg hab]
        rw [show a + utf8Len pre = utf8Len pre + a by omega, show b + utf8Len pre = utf8Len pre + b by omega,
          takeBytes_append_len, dropBytes_append_len, dropBytes_append_len,
          show utf8Len pre + b - (utf8Len pre + a) = b - a by omega]
        simp [List.append_assoc]

theorem isWs_trim (c : Char) (h : isWs c = true) : isTrimChar c = true :=
  trim_of_inCls ws4 (by decide) c h

theorem isWs_false_of_trim_false (c : Char) (h : isTrimChar c = false) : isWs c = false := by
  cases hw : isWs c with
  | false => rfl
  | true => rw [isWs_trim c hw] at h; cases h

theorem dropWhile_stop {α} (q : α → Bool) : ∀ (a : List α) (b : α) (r : List α), q b = false →
    ∃ d t, (a ++ b :: r).dropWhile q = d :: t ∧ (d ∈ a ∨ d = b) ∧ q d = false
  | [], b, r, hb => ⟨b, r, by rw [List.nil_append, List.dropWhile_cons_of_neg (by simp [hb])], Or.inr rfl, hb⟩
  | a0 :: a, b, r, hb => by
    by_cases h0 : q a0 = true
    · obtain ⟨d, t, h1, h2, h3⟩ := dropWhile_stop q a b r hb
      refine ⟨d, t, by rw [List.cons_append, List.dropWhile_cons_of_pos h0]; exact h1, ?_, h3⟩
      rcases h2 with h2 | h2
      · exact Or.inl (List.mem_cons_of_mem _ h2)
      · exact Or.inr h2
    · exact ⟨a0, a ++ b :: r, by rw [List.cons_append, List.dropWhile_cons_of_neg h0], Or.inl (by simp), by simpa using h0⟩

/-- inside a line without `@`, before its last character, nothing matches — whatever follows the line -/
theorem atAt_inside (c : Char) (t rest : List Char) (q : Nat) (ht : t ≠ []) (hlast : ∀ z t', t = t' ++ [z] → isTrimChar z = false)
    (hat : '@' ∉ t) : atAt (c :: t ++ rest) q = none := by
  rcases List.eq_nil_or_concat t with h | ⟨t', z, h⟩
  · exact absurd h ht
  · have ht' : t = t' ++ [z] := by simpa using h
    have hz : isWs z = false := isWs_false_of_trim_false z (hlast z t' ht')
    obtain ⟨d, r, hd, hmem, _⟩ := dropWhile_stop isWs t' z rest hz
    have hdne : d ≠ '@' := by
      intro e; subst e
      apply hat
      rcases hmem with hm | hm
      · rw [ht']; simp [hm]
      · rw [ht', ← hm]; simp
    rw [List.cons_append]
    unfold atAt
    simp only
    split
    · rfl
    · rw [ht', List.append_assoc, List.singleton_append, hd]
      simp [hdne]

/-- at the last character of a line: a match exactly when the next line is a tag -/
theorem atAt_last (c : Char) (b rest : List Char) (q : Nat) (hc : c ≠ '\n') (hb : GoodLine b) :
    atAt (c :: ' ' :: (b ++ rest)) q = if isTag b then some (q + utf8Len [c, ' ', '@']) else none := by
  obtain ⟨b0, bt, hb0⟩ : ∃ b0 bt, b = b0 :: bt := by
    cases b with
    | nil => exact absurd rfl hb.ne
    | cons x y => exact ⟨x, y, rfl⟩
  have hws : isWs b0 = false := isWs_false_of_trim_false b0 (hb.first b0 bt hb0)
  have hunf : atAt (c :: ' ' :: (b ++ rest)) q
      = (match (' ' :: (b ++ rest)).dropWhile isWs with
         | d :: _ => if d = '@' then some (q + c.utf8Size + utf8Len ((' ' :: (b ++ rest)).takeWhile isWs) + 1) else none
         | [] => none) := by
    unfold atAt
    exact if_neg hc
  rw [hunf]
  rw [hb0, List.cons_append, List.dropWhile_cons_of_pos (by decide), List.dropWhile_cons_of_neg (by simp [hws]),
    List.takeWhile_cons_of_pos (by decide), List.takeWhile_cons_of_neg (by simp [hws])]
  simp only [isTag, List.head?_cons]
  by_cases h : b0 = '@'
  · subst h
    simp only [if_true, beq_self_eq_true]
    congr 1
    simp only [utf8Len_cons, utf8Len_nil]
    have : (' ' : Char).utf8Size = 1 := by decide
    have : ('@' : Char).utf8Size = 1 := by decide
    omega
  · have : (some b0 == some '@') = false := by simp [h]
    simp [h, this]

/-- nothing matches inside a line without `@`, given what happens at its last character -/
theorem failsIn_at_line (a rest : List Char) (ha : GoodLine a) (hat : '@' ∉ a)
    (hlastc : ∀ z t' q, a = t' ++ [z] → atAt (z :: rest) q = none) : FailsIn atAt a rest := by
  intro p1 p2 q hsplit hne
  cases p2 with
  | nil => exact absurd rfl hne
  | cons c t =>
    by_cases ht : t = []
    · subst ht
      exact hlastc c p1 q hsplit
    · exact atAt_inside c t rest q ht
        (fun z t' hz => ha.last z (p1 ++ c :: t') (by rw [hsplit, hz]; simp))
        (fun hm => hat (by rw [hsplit]; simp [hm]))

theorem atAt_single_blank (c : Char) (b rest : List Char) (q : Nat) (hb : GoodLine b) (hnt : isTag b = false)
    (hc : c ≠ '\n') : atAt (c :: ' ' :: (b ++ rest)) q = none := by
  rw [atAt_last c b rest q hc hb, hnt]; rfl

theorem atAt_blank_line (b rest : List Char) (q : Nat) (hb : GoodLine b) (hnt : isTag b = false) :
    atAt (' ' :: (b ++ rest)) q = none := by
  obtain ⟨b0, bt, hb0⟩ : ∃ b0 bt, b = b0 :: bt := by
    cases b with
    | nil => exact absurd rfl hb.ne
    | cons x y => exact ⟨x, y, rfl⟩
  have hws : isWs b0 = false := isWs_false_of_trim_false b0 (hb.first b0 bt hb0)
  have hne : b0 ≠ '@' := by
    intro e; subst e; rw [hb0] at hnt; simp [isTag] at hnt
  have hunf : atAt (' ' :: (b ++ rest)) q
      = (match (b ++ rest).dropWhile isWs with
         | d :: _ => if d = '@' then some (q + (' ' : Char).utf8Size + utf8Len ((b ++ rest).takeWhile isWs) + 1) else none
         | [] => none) := by
    unfold atAt
    exact if_neg (by decide)
  rw [hunf, hb0, List.cons_append, List.dropWhile_cons_of_neg (by simp [hws])]
  simp [hne]

def repAt (m : List Char) : List Char := (m.take 1) ++ ['\n', '@']

theorem at_pass : ∀ (ls : List (List Char)) (n : Nat) (a : List Char), GoodLine a → '@' ∉ a → (∀ l ∈ ls, LineOk l) → ls.length ≤ n →
    replaceWith scanAt repAt n (a ++ tailJoin ls) = a ++ tailAt ls := by
  intro ls
  induction ls with
  | nil =>
    intro n a ha hat _ _
    simp only [tailJoin, tailAt, List.append_nil]
    apply replaceWith_none
    unfold scanAt
    apply scanWith_none atAt a _ atAt_nil
    apply failsIn_at_line a [] ha hat
    intro z t' q _
    unfold atAt
    by_cases h : z = '\n' <;> simp [h]
  | cons b ls ih =>
    intro n a ha hat hls hn
    have hbok := hls b (by simp)
    have hbg : GoodLine b := hbok.good
    rcases hbok with ⟨_, hbat⟩ | ⟨tb, hbt, htbg, htbat⟩
    · -- a plain line follows: nothing matches up to it
      have hnt : isTag b = false := by
        cases b with
        | nil => rfl
        | cons x y =>
          simp only [isTag, List.head?_cons]
          have : x ≠ '@' := fun e => hbat (by rw [e]; simp)
          simp [this]
      have hskip : FailsIn atAt (a ++ [' ']) (b ++ tailJoin ls) := by
        apply FailsIn_append
        · apply failsIn_at_line a _ ha hat
          intro z t' q hz
          exact atAt_single_blank z b _ q hbg hnt (ha.chars z (by rw [hz]; simp)).1
        · intro p1 p2 q hsplit hne
          have : p2 = [' '] := by
            cases p1 with
            | nil => simpa using hsplit.symm
            | cons x y =>
              have hl := congrArg List.length hsplit
              simp only [List.length_cons, List.length_append, List.length_nil] at hl
              exact absurd (List.length_eq_zero_iff.mp (by omega)) hne
          subst this
          exact atAt_blank_line b _ q hbg hnt
      have hshape : a ++ tailJoin (b :: ls) = (a ++ [' ']) ++ (b ++ tailJoin ls) := by simp [tailJoin, List.append_assoc]
      rw [hshape]
      unfold scanAt
      rw [replaceWith_skip atAt atAt_equivariant repAt n _ _ hskip]
      have := ih n b hbg hbat (fun l hl => hls l (by simp [hl])) (by simp at hn; omega)
      unfold scanAt at this
      rw [this]
      simp [tailAt, hnt, List.append_assoc]
    · -- a tag follows: the last character of `a`, the blank and the `@` are replaced
      subst hbt
      obtain ⟨a', z, haz⟩ : ∃ a' z, a = a' ++ [z] := by
        rcases List.eq_nil_or_concat a with h | ⟨x, y, h⟩
        · exact absurd h ha.ne
        · exact ⟨x, y, by simpa using h⟩
      have hzn : z ≠ '\n' := (ha.chars z (by rw [haz]; simp)).1
      cases n with
      | zero => simp at hn
      | succ n =>
        have hshape : a ++ tailJoin (('@' :: tb) :: ls) = a' ++ [z, ' ', '@'] ++ (tb ++ tailJoin ls) := by
          rw [haz]; simp [tailJoin, List.append_assoc]
        have hfound : scanAt (a' ++ [z, ' ', '@'] ++ (tb ++ tailJoin ls))
            = some (utf8Len a', utf8Len a' + utf8Len [z, ' ', '@']) := by
          unfold scanAt
          apply scan_found atAt _ _ _ (by simp)
          · intro p1 p2 q hsplit hne
            cases p2 with
            | nil => exact absurd rfl hne
            | cons c t =>
              have e : (c :: t) ++ ([z, ' ', '@'] ++ (tb ++ tailJoin ls)) = c :: (t ++ [z]) ++ (' ' :: '@' :: (tb ++ tailJoin ls)) := by
                simp [List.append_assoc]
              rw [e]
              apply atAt_inside c (t ++ [z]) _ q (by simp)
              · intro z' t'' hz'
                have : z' = z := by
                  have := List.append_inj_right' hz' rfl
                  simpa using this.symm
                subst this
                exact ha.last z' a' haz
              · intro hm
                apply hat
                rw [haz, hsplit]
                simp only [List.mem_append, List.mem_cons, List.not_mem_nil, or_false] at hm ⊢
                rcases hm with hm | hm
                · exact Or.inl (Or.inr (Or.inr hm))
                · exact Or.inr hm
          · intro q
            have := atAt_last z ('@' :: tb) (tailJoin ls) q hzn hbg
            simp only [isTag, List.head?_cons, beq_self_eq_true, if_true] at this
            simpa [List.append_assoc] using this
        rw [hshape, replaceWith_step scanAt repAt n a' [z, ' ', '@'] _ (by simp) hfound,
          ih n tb htbg htbat (fun l hl => hls l (by simp [hl])) (by simp at hn; omega), haz]
        simp [repAt, tailAt, isTag, List.append_assoc]

/-- the lines of a paragraph after both passes -/
def atJoin : List (List Char) → List Char
  | [] => []
  | a :: ls => a ++ tailAt ls

theorem at_pass_par (n : Nat) (ls : List (List Char)) (hne : ls ≠ []) (hls : ∀ l ∈ ls, LineOk l) (hn : ls.length ≤ n) :
    replaceWith scanAt repAt n (intercalate [' '] ls) = atJoin ls := by
  cases ls with
  | nil => exact absurd rfl hne
  | cons a ls =>
    rw [jint_eq_tailJoin, atJoin]
    rcases hls a (by simp) with ⟨hag, haat⟩ | ⟨ta, hat, htag, htaat⟩
    · exact at_pass ls n a hag haat (fun l hl => hls l (by simp [hl])) (by simp at hn; omega)
    · subst hat
      have hskip : FailsIn atAt ['@'] (ta ++ tailJoin ls) := by
        intro p1 p2 q hsplit hne2
        have : p2 = ['@'] := by
          cases p1 with
          | nil => simpa using hsplit.symm
          | cons x y =>
            have hl := congrArg List.length hsplit
            simp only [List.length_cons, List.length_append, List.length_nil] at hl
            exact absurd (List.length_eq_zero_iff.mp (by omega)) hne2
        subst this
        exact atAt_inside '@' ta _ q htag.ne (fun z t' hz => htag.last z t' hz) htaat
      have hshape : ('@' :: ta) ++ tailJoin ls = ['@'] ++ (ta ++ tailJoin ls) := rfl
      rw [hshape]
      unfold scanAt
      rw [replaceWith_skip atAt atAt_equivariant repAt n _ _ hskip]
      have := at_pass ls n ta htag htaat (fun l hl => hls l (by simp [hl])) (by simp at hn; omega)
      unfold scanAt at this
      rw [this]
      rfl

/-- what `parse_javadoc` does to one piece of the split -/
def normPiece (n : Nat) (p : List Char) : List Char :=
  replaceWith scanAt repAt n (replaceWith scanNoise (fun _ => [' ']) n (trimMatches p))

theorem normPiece_par (eol : List Char) (he : EolOk eol) (lead trail : List Char) (ls : List (List Char)) (n : Nat)
    (hlead : ∀ x ∈ lead, isTrimChar x = true) (htrail : ∀ x ∈ trail, isTrimChar x = true)
    (hne : ls ≠ []) (hok : ∀ l ∈ ls, LineOk l) (hn : ls.length ≤ n) :
    normPiece n (lead ++ renderPar eol ls ++ trail) = atJoin ls := by
  have hg : ∀ l ∈ ls, GoodLine l := fun l hl => (hok l hl).good
  -- first and last character of the paragraph text
  obtain ⟨l0, ls0, hls⟩ : ∃ l0 ls0, ls = l0 :: ls0 := by
    cases ls with
    | nil => exact absurd rfl hne
    | cons a b => exact ⟨a, b, rfl⟩
  obtain ⟨c0, t0, hl0⟩ : ∃ c0 t0, l0 = c0 :: t0 := by
    cases h : l0 with
    | nil => exact absurd h (hg l0 (by rw [hls]; simp)).ne
    | cons c t => exact ⟨c, t, rfl⟩
  obtain ⟨t0', hfirst⟩ := renderPar_first eol c0 t0 ls0
  have hc0 : isTrimChar c0 = false := (hg l0 (by rw [hls]; simp)).first c0 t0 hl0
  obtain ⟨ll, hll⟩ : ∃ ll, ls.getLast? = some ll := by
    cases h : ls.getLast? with
    | none => exact absurd (List.getLast?_eq_none_iff.mp h) hne
    | some x => exact ⟨x, rfl⟩
  have hllmem : ll ∈ ls := List.mem_of_getLast? hll
  obtain ⟨t1, c1, hl1⟩ : ∃ t1 c1, ll = t1 ++ [c1] := by
    rcases List.eq_nil_or_concat ll with h | ⟨a, b, h⟩
    · exact absurd h (hg ll hllmem).ne
    · exact ⟨a, b, by simpa using h⟩
  obtain ⟨t1', hlast⟩ := renderPar_last eol ls ll c1 t1 hll hl1
  have hc1 : isTrimChar c1 = false := (hg ll hllmem).last c1 t1 hl1
  unfold normPiece
  rw [trimMatches_core lead (renderPar eol ls) trail c0 t0' c1 t1' hlead htrail (by rw [hls, hl0]; exact hfirst) hc0 hlast hc1,
    replace_par eol he ls n hne hg hn]
  exact at_pass_par n ls hne hok hn

/-! ### all pieces, and the bounds of the two loops -/

theorem lsep_trim (eol : List Char) (he : EolOk eol) : ∀ x ∈ lsep eol, isTrimChar x = true := by
  rcases he with rfl | rfl <;> decide

theorem close_trim (eol : List Char) (he : EolOk eol) : ∀ x ∈ eol ++ [' '], isTrimChar x = true := by
  rcases he with rfl | rfl <;> decide

theorem blanks_trim : ∀ x ∈ [' ', '*', ' '], isTrimChar x = true := by decide

theorem pieces_norm (eol : List Char) (he : EolOk eol) (n : Nat) : ∀ (ps : List (List (List Char))) (lead : List Char) (p : List (List Char)),
    (∀ x ∈ lead, isTrimChar x = true) → (∀ P ∈ p :: ps, P ≠ [] ∧ (∀ l ∈ P, LineOk l) ∧ P.length ≤ n) →
    (pieces eol lead p ps).map (normPiece n) = (p :: ps).map atJoin := by
  intro ps
  induction ps with
  | nil =>
    intro lead p hlead hP
    obtain ⟨h1, h2, h3⟩ := hP p (by simp)
    simp only [pieces, List.map_cons, List.map_nil]
    rw [normPiece_par eol he lead (eol ++ [' ']) p n hlead (close_trim eol he) h1 h2 h3]
  | cons p2 ps ih =>
    intro lead p hlead hP
    obtain ⟨h1, h2, h3⟩ := hP p (by simp)
    simp only [pieces, List.map_cons]
    have := normPiece_par eol he lead [] p n hlead (by simp) h1 h2 h3
    rw [List.append_nil] at this
    rw [this, ih [' ', '*', ' '] p2 blanks_trim (fun P hPm => hP P (List.mem_cons_of_mem _ hPm))]
    rfl

theorem len_renderPar (eol : List Char) : ∀ (ls : List (List Char)), (∀ l ∈ ls, l ≠ []) → ls.length ≤ (renderPar eol ls).length
  | [], _ => by simp
  | [a], h => by
    rw [renderPar_single]
    have := List.length_pos_iff.mpr (h a (by simp))
    simp; omega
  | a :: b :: ls, h => by
    rw [renderPar_cons2]
    have ih := len_renderPar eol (b :: ls) (fun l hl => h l (by simp [hl]))
    have := List.length_pos_iff.mpr (h a (by simp))
    simp only [List.length_append, List.length_cons] at ih ⊢
    omega

theorem len_bodyTail (eol : List Char) : ∀ (ps : List (List (List Char))), ps.length ≤ (bodyTail eol ps).length
  | [] => by simp
  | p :: ps => by
    have := len_bodyTail eol ps
    simp only [bodyTail, List.length_append, List.length_cons] at this ⊢
    omega

theorem len_par_in_tail (eol : List Char) : ∀ (ps : List (List (List Char))) (P : List (List Char)), P ∈ ps →
    (renderPar eol P).length ≤ (bodyTail eol ps).length
  | [], _, h => by cases h
  | p :: ps, P, h => by
    simp only [bodyTail, List.length_append]
    rcases List.mem_cons.mp h with rfl | h
    · omega
    · have := len_par_in_tail eol ps P h; omega

/-- the closed form for any decoration `lead` before the first line (` * ` on a line of its own, or a blank on the line of `/**`) -/
theorem parseJavadocSpec_structured_gen (eol : List Char) (he : EolOk eol) (lead : List Char) (p : List (List Char)) (ps : List (List (List Char)))
    (hltrim : ∀ x ∈ lead, isTrimChar x = true) (hlead : ∀ r, FailsIn parAt lead (renderPar eol p ++ r))
    (hP : ∀ P ∈ p :: ps, P ≠ [] ∧ ∀ l ∈ P, LineOk l) :
    parseJavadocSpec (lead ++ renderPar eol p ++ bodyTail eol ps) = intercalate ['\n'] ((p :: ps).map atJoin) := by
  obtain ⟨hp1, hp2⟩ := hP p (by simp)
  have hnonempty : ∀ P ∈ p :: ps, ∀ l ∈ P, l ≠ [] := fun P hPm l hl => ((hP P hPm).2 l hl).good.ne
  -- the loop bounds
  have hlen_body : (lead ++ renderPar eol p ++ bodyTail eol ps).length = lead.length + (renderPar eol p).length + (bodyTail eol ps).length := by
    simp [List.length_append, Nat.add_assoc]
  have hn1 : ps.length ≤ (lead ++ renderPar eol p ++ bodyTail eol ps).length + 1 := by
    have := len_bodyTail eol ps; omega
  have hn2 : ∀ P ∈ p :: ps, P ≠ [] ∧ (∀ l ∈ P, LineOk l) ∧ P.length ≤ (lead ++ renderPar eol p ++ bodyTail eol ps).length + 1 := by
    intro P hPm
    refine ⟨(hP P hPm).1, (hP P hPm).2, ?_⟩
    have h1 := len_renderPar eol P (hnonempty P hPm)
    rcases List.mem_cons.mp hPm with rfl | hm
    · omega
    · have := len_par_in_tail eol ps P hm; omega
  unfold parseJavadocSpec
  simp only
  have hsplit := split_body eol he ps lead p ((lead ++ renderPar eol p ++ bodyTail eol ps).length + 1) hlead hp1
    (fun l hl => (hp2 l hl).good)
    (fun P hPm => ⟨(hP P (by simp [hPm])).1, fun l hl => ((hP P (by simp [hPm])).2 l hl).good⟩) hn1
  rw [hsplit]
  congr 1
  exact pieces_norm eol he _ ps lead p hltrim hn2

/-- **The closed form on structured bodies** (specification): lines joined by single blanks, paragraphs by newlines. -/
theorem parseJavadocSpec_structured (eol : List Char) (he : EolOk eol) (p : List (List Char)) (ps : List (List (List Char)))
    (hP : ∀ P ∈ p :: ps, P ≠ [] ∧ ∀ l ∈ P, LineOk l) :
    parseJavadocSpec (renderBody eol (p :: ps)) = intercalate ['\n'] ((p :: ps).map atJoin) := by
  obtain ⟨hp1, hp2⟩ := hP p (by simp)
  obtain ⟨l0, ls0, hl0⟩ : ∃ l0 ls0, p = l0 :: ls0 := by
    cases p with
    | nil => exact absurd rfl hp1
    | cons a b => exact ⟨a, b, rfl⟩
  have hlead : ∀ r, FailsIn parAt (lsep eol) (renderPar eol p ++ r) := by
    intro r
    obtain ⟨r', hr'⟩ := renderPar_head eol l0 ls0
    rw [hl0, hr', List.append_assoc]
    exact failsIn_par_lsep eol l0 (r' ++ r) he (hp2 l0 (by rw [hl0]; simp)).good
  exact parseJavadocSpec_structured_gen eol he (lsep eol) p ps (lsep_trim eol he) hlead hP

/-- the first line on the line of `/**` itself: `/** first␤ * second␤ */` -/
theorem parseJavadoc_structured_same_line (eol : List Char) (he : EolOk eol) (p : List (List Char)) (ps : List (List (List Char)))
    (hP : ∀ P ∈ p :: ps, P ≠ [] ∧ ∀ l ∈ P, LineOk l) :
    parseJavadoc ([' '] ++ renderPar eol p ++ bodyTail eol ps) = intercalate ['\n'] ((p :: ps).map atJoin) := by
  rw [parseJavadoc_eq_spec]
  exact parseJavadocSpec_structured_gen eol he [' '] p ps (by decide)
    (fun r => FailsIn_of_heads parAt _ _ (fun c hc t q => parAt_head c t q
      (by intro e; subst e; revert hc; decide) (by intro e; subst e; revert hc; decide))) hP

/-- … hence of the model of `parse_javadoc` itself -/
theorem parseJavadoc_structured (eol : List Char) (he : EolOk eol) (p : List (List Char)) (ps : List (List (List Char)))
    (hP : ∀ P ∈ p :: ps, P ≠ [] ∧ ∀ l ∈ P, LineOk l) :
    parseJavadoc (renderBody eol (p :: ps)) = intercalate ['\n'] ((p :: ps).map atJoin) := by
  rw [parseJavadoc_eq_spec, parseJavadocSpec_structured eol he p ps hP]

/-- the documentation of a construct directly preceded by a doc comment laid out this way -/
theorem doc_structured (pre rest : List Char) (pcs : List JavadocAttach.Piece) (hpcs : ∀ x ∈ pcs, x.ok)
    (eol : List Char) (he : EolOk eol) (p : List (List Char)) (ps : List (List (List Char)))
    (hP : ∀ P ∈ p :: ps, P ≠ [] ∧ ∀ l ∈ P, LineOk l)
    (hslash : ∀ x ∈ renderBody eol (p :: ps), x ≠ '/') :
    getJavadoc (pre ++ ['/', '*', '*'] ++ renderBody eol (p :: ps) ++ ['*', '/'] ++ JavadocAttach.flat pcs ++ rest)
        (utf8Len (pre ++ ['/', '*', '*'] ++ renderBody eol (p :: ps) ++ ['*', '/'] ++ JavadocAttach.flat pcs))
      = .ok (some (String.ofList (intercalate ['\n'] ((p :: ps).map atJoin)))) := by
  have hhead : (renderBody eol (p :: ps)).head? ≠ some '*' := by
    rcases he with rfl | rfl <;> simp [renderBody, lsep]
  rw [JavadocAttach.getJavadoc_doc pre _ rest pcs hslash hhead hpcs, parseJavadoc_structured eol he p ps hP]

/-- non-vacuity: CRLF, non-ASCII words, two paragraphs (the hypotheses are met; nothing is evaluated) -/
example : parseJavadoc "\r\n * Größe  日本\r\n * 🎉 ok\r\n *\r\n * second\r\n ".toList = "Größe  日本 🎉 ok\nsecond".toList := by
  have hg : ∀ l ∈ ["Größe  日本".toList, "🎉 ok".toList, "second".toList], LineOk l := by
    intro l hl
    simp only [List.mem_cons, List.not_mem_nil, or_false] at hl
    rcases hl with rfl | rfl | rfl
    all_goals refine Or.inl ⟨⟨by decide, by decide, by intro c t h; cases h; decide, by
      intro c t h
      have := congrArg List.getLast? h
      simp at this
      subst this
      decide⟩, by decide⟩
  exact parseJavadoc_structured ['\r', '\n'] (Or.inr rfl) ["Größe  日本".toList, "🎉 ok".toList] [["second".toList]]
    (by
      intro P hPm
      simp only [List.mem_cons, List.not_mem_nil, or_false] at hPm
      rcases hPm with rfl | rfl
      · exact ⟨by simp, fun l hl => hg l (by
          simp only [List.mem_cons, List.not_mem_nil, or_false] at hl ⊢
          rcases hl with h | h
          · exact Or.inl h
          · exact Or.inr (Or.inl h))⟩
      · exact ⟨by simp, fun l hl => hg l (by
          simp only [List.mem_cons, List.not_mem_nil, or_false] at hl ⊢
          exact Or.inr (Or.inr hl))⟩)

theorem goodLine_of_decide (l : List Char) (h1 : l ≠ []) (h2 : ∀ c ∈ l, c ≠ '\n' ∧ c ≠ '\r')
    (h3 : (l.head?.map isTrimChar) = some false) (h4 : (l.getLast?.map isTrimChar) = some false) : GoodLine l := by
  refine ⟨h1, h2, ?_, ?_⟩
  · intro c t h; subst h; simpa using h3
  · intro c t h; subst h; simpa using h4

/-- non-vacuity with a tag clause (LF): the tag goes to a line of its own -/
example : parseJavadoc "\n * first  line\n * @param x é\n ".toList = "first  line\n@param x é".toList := by
  refine parseJavadoc_structured ['\n'] (Or.inl rfl) ["first  line".toList, "@param x é".toList] [] ?_
  intro P hPm
  simp only [List.mem_cons, List.not_mem_nil, or_false] at hPm
  subst hPm
  refine ⟨by simp, ?_⟩
  intro l hl
  simp only [List.mem_cons, List.not_mem_nil, or_false] at hl
  rcases hl with rfl | rfl
  · exact Or.inl ⟨goodLine_of_decide _ (by decide) (by decide) (by decide) (by decide), by decide⟩
  · exact Or.inr ⟨"param x é".toList, rfl, goodLine_of_decide _ (by decide) (by decide) (by decide) (by decide), by decide⟩

end Aidl.Props.JavadocForm
