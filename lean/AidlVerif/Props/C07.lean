import AidlVerif.Spec.C07
import AidlVerif.Lemmas.Sort
import AidlVerif.Lemmas.Methods
import AidlVerif.Lemmas.Oneway

/-!
# C07 — property theorems (about the model `Aidl.validateFile`)
-/

namespace Aidl.Props.C07
open Aidl Aidl.Spec Aidl.Spec.C07

/-- **Per argument.** `check_method_args` pushes, for one argument, exactly the number of
    diagnostics the statement calls for; all of them are Errors and all sit on the direction
    keyword (or on the empty range at the start of the type). For every kind, direction and
    oneway flag. -/
theorem arg_rule (ow : Bool) (a : Arg) :
    (checkMethodArg ow a).length = expectedCount (Category.of a.argType.kind) (dirOf a.direction) ow
    ∧ ∀ d ∈ checkMethodArg ow a, d.kind = .error ∧ d.range = argDirectionRange a := by
  obtain ⟨dir, name, ty, anns, doc, sym, full⟩ := a
  obtain ⟨tn, k, gens, ts, tf⟩ := ty
  cases k with
  | android ak =>
    cases ak <;> cases dir <;> cases ow <;>
      simp [checkMethodArg, requirementFor, expectedCount, typeRuleBroken, onewayRuleBroken, dirOf,
        Category.of, Ty.kind, Ty.name, mkDiag, Direction.isUnspecified, Direction.isIn, Direction.isOut,
        Direction.isInOut]
  | resolved key rk =>
    cases rk <;> cases dir <;> cases ow <;>
      simp [checkMethodArg, requirementFor, expectedCount, typeRuleBroken, onewayRuleBroken, dirOf,
        Category.of, Ty.kind, Ty.name, mkDiag, Direction.isUnspecified, Direction.isIn, Direction.isOut,
        Direction.isInOut]
  | _ =>
    cases dir <;> cases ow <;>
      simp [checkMethodArg, requirementFor, expectedCount, typeRuleBroken, onewayRuleBroken, dirOf,
        Category.of, Ty.kind, Ty.name, mkDiag, Direction.isUnspecified, Direction.isIn, Direction.isOut,
        Direction.isInOut]


/-! ### every argument of every method, once -/

theorem errorsAt_append (a b : List Diag) (r : Range) : errorsAt (a ++ b) r = errorsAt a r + errorsAt b r := by
  simp [errorsAt, List.countP_append]

theorem errorsAt_perm {a b : List Diag} (h : a.Perm b) (r : Range) : errorsAt a r = errorsAt b r := by
  unfold errorsAt; exact h.countP_eq _

/-- Errors pushed for one argument that sit on a given range -/
theorem errorsAt_arg (ow : Bool) (a : Arg) (r : Range) :
    errorsAt (checkMethodArg ow a) r =
      if argDirectionRange a = r then expectedCount (Category.of a.argType.kind) (dirOf a.direction) ow else 0 := by
  have h := arg_rule ow a
  unfold errorsAt
  split
  · rename_i heq
    rw [← h.1]
    apply List.countP_eq_length.mpr
    intro d hd
    have := h.2 d hd
    simp [this.1, this.2, heq]
  · rename_i hne
    apply List.countP_eq_zero.mpr
    intro d hd
    have := h.2 d hd
    simp [this.2, hne]

theorem errorsAt_argDiags (ast : AidlFile) (r : Range)
    (how : ∀ m ∈ methodsOf ast, interfaceOneway ast = true → m.oneway = true) :
    errorsAt (argDiags ast) r = expectedAt ast r := by
  unfold argDiags expectedAt argsOf
  generalize hms : methodsOf ast = ms at how
  clear hms
  induction ms with
  | nil => simp [errorsAt]
  | cons m ms ih =>
    have how' : ∀ m' ∈ ms, interfaceOneway ast = true → m'.oneway = true :=
      fun m' hm' => how m' (List.mem_cons_of_mem _ hm')
    simp only [List.flatMap_cons, errorsAt_append, List.filter_append, List.map_append, List.sum_append]
    rw [ih how']
    congr 1
    have hm : (m.oneway || interfaceOneway ast) = m.oneway := by
      cases hi : interfaceOneway ast
      · simp
      · simp [how m (List.mem_cons_self ..) hi]
    unfold checkMethodArgs
    generalize m.args = as
    induction as with
    | nil => simp [errorsAt]
    | cons a as iha =>
      simp only [List.flatMap_cons, errorsAt_append, List.map_cons, List.filter_cons, errorsAt_arg]
      split
      · rename_i heq
        simp [heq, hm, iha]
      · rename_i hne
        simp [hne, iha]

/-- No diagnostic other than the argument-direction ones is an Error sitting on an argument's
    direction range. (Ranges of distinct constructs are distinct in parser output; the harness
    evaluates this decidable predicate on every case.) -/
def Fresh (g : Groups) (ids : List Diag) : Prop :=
  ∀ d ∈ g.othersThanArgs ids, d.kind = .error → ∀ p ∈ argsOf g.ast, d.range ≠ argDirectionRange p.2

instance (g : Groups) (ids : List Diag) : Decidable (Fresh g ids) := by unfold Fresh; infer_instance

/-- **C07 for the model.** In the result of validating any file, under any hash order and any
    set of defined keys, every argument of every method carries exactly the number of Errors the
    statement calls for on its direction range. -/
theorem holds (ho : HashOrder) (defined : Defined) (fr out : FileResult)
    (h : validateFile ho defined fr = .ok out)
    (fresh : ∀ ast g ids, fr.ast = some ast → validateGroups ho defined fr.diags ast = .ok g →
      idDiagsLoop {} (methodsOf g.ast) = .ok ids → Fresh g ids) :
    holdsFile out = true := by
  unfold validateFile at h
  cases hast : fr.ast with
  | none =>
    simp only [hast] at h
    cases h
    simp [holdsFile, hast]
  | some ast =>
    simp only [hast] at h
    cases hg : validateGroups ho defined fr.diags ast with
    | error e => simp [hg] at h
    | ok g =>
      simp only [hg] at h
      cases h
      obtain ⟨ids, hids, hperm⟩ := groups_perm hg
      have hfresh := fresh ast g ids hast hg hids
      simp only [holdsFile, List.all_eq_true, beq_iff_eq]
      intro p hp
      have hcount : errorsAt (sortDiags g.all) (argDirectionRange p.2)
          = errorsAt (g.othersThanArgs ids) (argDirectionRange p.2) + errorsAt (argDiags g.ast) (argDirectionRange p.2) := by
        rw [errorsAt_perm (sortDiags_perm g.all), errorsAt_perm hperm, errorsAt_append]
      rw [hcount]
      have hzero : errorsAt (g.othersThanArgs ids) (argDirectionRange p.2) = 0 := by
        unfold errorsAt
        apply List.countP_eq_zero.mpr
        intro d hd
        simp only [decide_eq_true_eq, not_and]
        intro hk
        exact hfresh d hd hk p hp
      rw [hzero, Nat.zero_add]
      apply errorsAt_argDiags
      rw [validateGroups_ast hg]
      exact setUpOneway_all_oneway _

/-- non-vacuity: a concrete argument for which both rules are broken (`out int` in a oneway method) -/
example :
    let r : Range := ⟨⟨10, 1, 11⟩, ⟨13, 1, 14⟩⟩
    let a : Arg := { direction := .out r, name := some "x",
                     argType := .mk "int" .primitive [] ⟨⟨14, 1, 15⟩, ⟨17, 1, 18⟩⟩ ⟨⟨14, 1, 15⟩, ⟨17, 1, 18⟩⟩,
                     annotations := [], doc := none, sym := default, full := default }
    (checkMethodArg true a).length = 2 ∧ expectedCount .primitive .out true = 2 := by
  decide

end Aidl.Props.C07
