import AidlVerif.Props.LrTermCert
import AidlVerif.Props.ParseTyped

/-!
# C01 / C04, parse stage — for EVERY text the parser model terminates within its step bound

`addContent_terminates`: with the tables of this run (LR stack-shape certificate `cert_ok`,
termination certificate `pot_ok`, non-nullable token expressions `lex_nonnull`, all evaluated by the
kernel), the model of `add_content` never stops with `fuelOut` — the bound `parseFuel` (64 steps per
character + 1024) is enough for every input, including inputs on which error recovery runs.
`addContent_total`: with the typing results (`ParseTyped.addContent_stops2`) no stop is left — for
every text and every line/column lookup defined on the character boundaries, the model of
`add_content` returns a result.
-/

namespace Aidl.Props.ParseTerm
open Aidl Aidl.Lr Aidl.Actions Aidl.Lexer
open Aidl.Props.LrSafe Aidl.Props.LrTerm Aidl.Props.ParseTyped Aidl.Props.LrInv

theorem finishE_fuelOut (env : Env) (id : String) (s : St) (o : Outcome)
    (h : finishE env id s o = .error .fuelOut) : o = .fuelOut := by
  unfold finishE at h
  cases o with
  | panic m => cases h
  | actionPanic p => cases h
  | fuelOut => rfl
  | accept v =>
    dsimp only at h
    split at h <;> cases h
  | error e =>
    dsimp only at h
    split at h <;> cases h

/-- generic over the tables: the three certificates in, termination out -/
theorem addContent_terminates_gen (T : Tables) (C : Cert) (P : Pot) (hC : C.ok T = true) (hP : P.ok T C = true)
    (hL : LexProg T) (env : Env) (id text : String) : addContentE T env id text ≠ .error .fuelOut := by
  intro h
  unfold addContentE at h
  have := finishE_fuelOut env id _ _ h
  exact parse_term T C P env (certFacts T C hC) (potFacts T C P hP) hL text.toList this

/-- **For every text** (tables and certificates of this run): the model of `add_content` never
    reaches its step bound. -/
theorem addContent_terminates (env : Env) (id text : String) :
    addContentE Driver.Parse.tables env id text ≠ .error .fuelOut :=
  addContent_terminates_gen Driver.Parse.tables cert pot cert_ok pot_ok lexProg_run env id text

/-- **For every text** and every line/column lookup defined on the character boundaries of the
    text: the model of `add_content` RETURNS A RESULT — no panic of the driver, no `Range::new` /
    slice panic, no value of the wrong shape, no `unreachable!()`, no step bound. -/
theorem addContent_total (env : Env) (id text : String) (hE : EnvOk env text.toList) :
    ∃ r, addContentE Driver.Parse.tables env id text = .ok r := by
  cases h : addContentE Driver.Parse.tables env id text with
  | ok r => exact ⟨r, rfl⟩
  | error st =>
    have h2 := addContent_stops2 env id text hE st h
    cases st with
    | fuelOut => exact absurd h (addContent_terminates env id text)
    | driver m => exact h2.elim
    | action p => exact h2.elim
    | acceptShape => exact h2.elim

end Aidl.Props.ParseTerm
