import AidlVerif.Props.LexUnlex
import AidlVerif.Props.C03Complete

/-!
# Every layout of a derivable list of lexemes is accepted

`layout_accepted`: a text that is lexemes separated by skipped text (`LexesTo`, a relation on the text) whose
lexemes' columns are derivable from the accepting production of the grammar is accepted by the model's `add_content`
in a run in which error recovery never ran — the hypothesis of `C03Complete.wellformed_accepted` (an evaluation of
the lexer) is discharged by the lexical specification.
-/

namespace Aidl.Props.LexAccept
open Aidl Aidl.Lr Aidl.Actions Aidl.Erase Aidl.Props.LrInv
open Aidl.Lexer Aidl.Props.LexSpec Aidl.Props.LexUnlex

/-! ### … and a derivable list of lexemes is accepted, in every layout -/

/-- the columns of the ACTION table of a list of tokens -/
def colsOf (T : Tables) : List (Nat × String) → Option (List Nat)
  | [] => some []
  | t :: ts =>
    match T.tokToCol.lookup t.1 with
    | none => none
    | some c => (colsOf T ts).map (c :: ·)

theorem lexColsOf_of_lexToks (T : Tables) : ∀ (f : Nat) (i : List Char) (p : Nat) (toks : List (Nat × String)) (w : List Nat),
    lexToks T f i p = some (toks, true) → colsOf T toks = some w → C03Complete.lexColsOf T f i p = some w := by
  intro f
  induction f with
  | zero => intro i p toks w h; simp [lexToks] at h
  | succ f ih =>
    intro i p toks w h hc
    unfold lexToks at h
    unfold C03Complete.lexColsOf
    cases hn : Lexer.next T.lex (i.length + 1) i p with
    | eof =>
      rw [hn] at h
      simp only [Option.some.injEq, Prod.mk.injEq, and_true] at h
      subst h
      simp only [colsOf, Option.some.injEq] at hc
      rw [← hc]
    | invalid l => rw [hn] at h; simp at h
    | token t r =>
      rw [hn] at h
      simp only at h
      cases hr : lexToks T f r t.stop with
      | none => rw [hr] at h; cases h
      | some y =>
        rw [hr] at h
        simp only [Option.map_some, Option.some.injEq, Prod.mk.injEq] at h
        obtain ⟨h1, h2⟩ := h
        subst h1
        simp only [colsOf] at hc
        cases hl : T.tokToCol.lookup t.index with
        | none => rw [hl] at hc; cases hc
        | some c =>
          rw [hl] at hc
          simp only
          cases hcs : colsOf T y.1 with
          | none => rw [hcs] at hc; cases hc
          | some w' =>
            rw [hcs] at hc
            simp only [Option.map_some, Option.some.injEq] at hc
            have hy : y = (y.1, true) := by rw [← h2]
            rw [hy] at hr
            rw [ih r t.stop y.1 w' hr hcs, ← hc, hl]
            rfl

/-- **Every layout of a derivable list of lexemes is accepted**: a text that is lexemes separated by skipped text
    (`LexesTo`), whose lexemes' columns are derivable from the accepting production of the grammar, is accepted by
    the model's `add_content` in a run in which error recovery never ran — whatever the layout. -/
theorem layout_accepted (env : Env) (id text : String) (hE : EnvOk env text.toList) (toks : List (Nat × String)) (w : List Nat)
    (hl : LexesTo text.toList toks) (hc : colsOf Driver.Parse.tables toks = some w)
    (hd : LrSound.Derives Driver.Parse.tables w) :
    ∃ r v, addContentE Driver.Parse.tables env id text = .ok r
      ∧ (parseLoop Driver.Parse.tables env { input := text.toList } (parseFuel text)).2 = .accept v
      ∧ (parseLoop Driver.Parse.tables env { input := text.toList } (parseFuel text)).1.recovered = false :=
  C03Complete.wellformed_accepted env id text hE w
    (lexColsOf_of_lexToks _ _ _ _ _ _ (lexToks_of_lexesTo hl _ 0 (Nat.lt_succ_self _)) hc) hd

end Aidl.Props.LexAccept
