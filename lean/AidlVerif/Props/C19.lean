import AidlVerif.Model.Serde

/-!
# C19 — serialising a tree and reading it back gives an equal tree (serde attribute layer)
-/

namespace Aidl.Props.C19
open Aidl.Serde

theorem deLookup_not_mem (sc : Schema) (n : String) (E : List (String × S)) (h : n ∉ E.map (·.1)) :
    deLookup sc n E = none := by
  induction E with
  | nil => simp [deLookup]
  | cons e rest ih =>
    obtain ⟨k, s⟩ := e
    simp only [List.map_cons, List.mem_cons, not_or] at h
    have : ¬ k = n := fun e => h.1 e.symm
    simp [deLookup, this, ih h.2]

theorem deLookup_append (sc : Schema) (n : String) (E₁ E₂ : List (String × S)) (h : n ∉ E₁.map (·.1)) :
    deLookup sc n (E₁ ++ E₂) = deLookup sc n E₂ := by
  induction E₁ with
  | nil => rfl
  | cons e rest ih =>
    obtain ⟨k, s⟩ := e
    simp only [List.map_cons, List.mem_cons, not_or] at h
    have : ¬ k = n := fun e => h.1 e.symm
    simp [deLookup, this, ih h.2]

theorem serFields_names (sc : Schema) (F : List FieldSpec) (vals : List V) :
    ∀ n ∈ (serFields sc F vals).map (·.1), n ∈ F.map (·.name) := by
  induction F generalizing vals with
  | nil => intro n hn; simp [serFields] at hn
  | cons fs fss ih =>
    cases vals with
    | nil => intro n hn; simp [serFields] at hn
    | cons v vs =>
      intro n hn
      simp only [serFields] at hn
      split at hn
      · exact List.mem_cons_of_mem _ (ih vs n hn)
      · simp only [List.map_cons, List.mem_cons] at hn
        rcases hn with rfl | hn
        · simp
        · exact List.mem_cons_of_mem _ (ih vs n hn)

theorem serFields_append (sc : Schema) (F₁ F₂ : List FieldSpec) (v₁ v₂ : List V) (h : F₁.length = v₁.length) :
    serFields sc (F₁ ++ F₂) (v₁ ++ v₂) = serFields sc F₁ v₁ ++ serFields sc F₂ v₂ := by
  induction F₁ generalizing v₁ with
  | nil =>
    cases v₁ with
    | nil => simp [serFields]
    | cons _ _ => simp at h
  | cons fs fss ih =>
    cases v₁ with
    | nil => simp at h
    | cons v vs =>
      simp only [List.cons_append, serFields]
      have := ih vs (by simpa using h)
      split <;> simp [this]

/-- the fields of one struct: everything the schema lists comes back — skipped fields from their
    defaults, emitted fields from the input -/
theorem fields_roundtrip (sc : Schema) (F₁ F₂ : List FieldSpec) (v₁ v₂ : List V)
    (hl1 : F₁.length = v₁.length) (hl2 : F₂.length = v₂.length)
    (hnd : ((F₁ ++ F₂).map (·.name)).Nodup) (hc : ∀ fs ∈ F₂, fs.consistent = true)
    (hv : ∀ v ∈ v₂, de sc (ser sc v) = some v) :
    deFields sc F₂ (serFields sc (F₁ ++ F₂) (v₁ ++ v₂)) = some v₂ := by
  induction F₂ generalizing F₁ v₁ v₂ with
  | nil =>
    cases v₂ with
    | nil => simp [deFields]
    | cons _ _ => simp at hl2
  | cons fs fss ih =>
    cases v₂ with
    | nil => simp at hl2
    | cons v vs =>
      -- the rest, with `fs` moved to the processed prefix
      have hrest := ih (F₁ ++ [fs]) (v₁ ++ [v]) vs (by simp [hl1]) (by simpa using hl2)
        (by simpa [List.append_assoc] using hnd) (fun f hf => hc f (List.mem_cons_of_mem _ hf))
        (fun x hx => hv x (List.mem_cons_of_mem _ hx))
      simp only [List.append_assoc, List.singleton_append] at hrest
      simp only [deFields, hrest]
      -- the field itself
      rw [serFields_append sc F₁ (fs :: fss) v₁ (v :: vs) hl1]
      have hnd' := hnd
      rw [List.map_append, List.nodup_append] at hnd'
      have hnot1 : fs.name ∉ (serFields sc F₁ v₁).map (·.1) := by
        intro hm
        have := serFields_names sc F₁ v₁ _ hm
        exact hnd'.2.2 _ this _ (by simp) rfl
      rw [deLookup_append sc fs.name _ _ hnot1]
      simp only [serFields]
      have hnd2 := hnd'.2.1
      rw [List.map_cons, List.nodup_cons] at hnd2
      by_cases hs : fs.skips v = true
      · -- skipped: absent from the output, restored from the default
        simp only [hs, if_true]
        have hnot2 : fs.name ∉ (serFields sc fss vs).map (·.1) := fun hm => hnd2.1 (serFields_names sc fss vs _ hm)
        rw [deLookup_not_mem sc _ _ hnot2]
        have hcons := hc fs (by simp)
        unfold FieldSpec.skips at hs
        unfold FieldSpec.consistent at hcons
        cases hp : fs.skipIf with
        | none => simp [hp] at hs
        | some p =>
          simp only [hp] at hs hcons
          cases hd : fs.default with
          | none => simp [hd] at hcons
          | some d =>
            simp only [hd] at hcons
            have e1 : d.toV = p.canon := by simpa using hcons
            have e2 : v = p.canon := by simpa [Pred.holds] using hs
            simp [e1, e2]
      · have hs' : fs.skips v = false := by simpa using hs
        simp [hs', deLookup, hv v (by simp)]

theorem deList_of_all (sc : Schema) (l : List V) (h : ∀ v ∈ l, de sc (ser sc v) = some v) :
    deList sc (serList sc l) = some l := by
  induction l with
  | nil => simp [serList, deList]
  | cons v vs ih =>
    simp only [serList, deList]
    rw [h v (by simp), ih (fun x hx => h x (List.mem_cons_of_mem _ hx))]

theorem consistent_fields (sc : Schema) (hc : sc.consistent = true) (name : String) :
    (∀ fs ∈ sc.fieldsOf name, fs.consistent = true) ∧ ((sc.fieldsOf name).map (·.name)).Nodup := by
  unfold Schema.fieldsOf
  cases hl : sc.lookup name with
  | none => simp
  | some F =>
    simp only [Option.getD_some]
    unfold Schema.consistent at hc
    have hmem : (name, F) ∈ sc := by
      clear hc
      induction sc with
      | nil => simp at hl
      | cons e rest ih =>
        obtain ⟨k, f⟩ := e
        simp only [List.lookup_cons] at hl
        by_cases hk : name = k
        · subst hk; simp at hl; subst hl; simp
        · have : (name == k) = false := by simpa using hk
          simp only [this] at hl
          exact List.mem_cons_of_mem _ (ih hl)
    have := List.all_eq_true.mp hc _ hmem
    simp only [Bool.and_eq_true, List.all_eq_true, decide_eq_true_eq] at this
    exact this

mutual
/-- **Round trip.** With a consistent schema, every value that matches the schema survives
    `de ∘ ser` — by mutual structural induction over the nested value type. -/
theorem roundtrip (sc : Schema) (hc : sc.consistent = true) : (v : V) → V.wf sc v = true → de sc (ser sc v) = some v
  | .bool b, _ => by simp [ser, de]
  | .nat n, _ => by simp [ser, de]
  | .str s, _ => by simp [ser, de]
  | .none_, _ => by simp [ser, de]
  | .some_ v, h => by
    simp only [V.wf] at h
    simp [ser, de, roundtrip sc hc v h]
  | .seq l, h => by
    simp only [V.wf] at h
    simp [ser, de, deList_of_all sc l (roundtripAll sc hc l h)]
  | .variant n payload, h => by
    simp only [V.wf] at h
    simp [ser, de, deList_of_all sc payload (roundtripAll sc hc payload h)]
  | .struct name vals, h => by
    simp only [V.wf, Bool.and_eq_true, beq_iff_eq] at h
    obtain ⟨hcons, hnd⟩ := consistent_fields sc hc name
    have := fields_roundtrip sc [] (sc.fieldsOf name) [] vals rfl h.1.symm (by simpa using hnd) hcons
      (roundtripAll sc hc vals h.2)
    simp only [List.nil_append] at this
    simp [ser, de, this]
theorem roundtripAll (sc : Schema) (hc : sc.consistent = true) : (l : List V) → V.wfList sc l = true →
    ∀ v ∈ l, de sc (ser sc v) = some v
  | [], _ => by simp
  | x :: xs, h => by
    simp only [V.wfList, Bool.and_eq_true] at h
    intro v hv
    rcases List.mem_cons.mp hv with e | hv
    · rw [e]; exact roundtrip sc hc x h.1
    · exact roundtripAll sc hc xs h.2 v hv
end

/-- the pre-fix attribute of `Method.oneway` (skipped when true, defaulted to false) is
    inconsistent, and a oneway method does not survive the round trip under it -/
example :
    let fs : FieldSpec := { name := "oneway", skipIf := some .boolIsTrue, default := some (.bool false) }
    fs.consistent = false
    ∧ de [("Method", [fs])] (ser [("Method", [fs])] (.struct "Method" [.bool true])) = some (.struct "Method" [.bool false]) := by
  simp [FieldSpec.consistent, ser, serFields, de, deFields, deLookup, Schema.fieldsOf, FieldSpec.skips,
    Pred.holds, Pred.canon, DefaultV.toV, List.lookup]

end Aidl.Props.C19
