import AidlVerif.Props.LrPot
import AidlVerif.Props.LrSafe
import AidlVerif.Props.LexerProgress

/-!
# The LR driver terminates within the model's step bound — for every input, given checked certificates

`Pot.ok` (evaluated by the kernel on the regenerated tables, `Props/LrTermCert.lean`) gives a
potential `phi = Σ w(stack) + r(top)` that every reduction decreases (`reduce_pot`); a shift or an
error recovery raises it by at most `wMax + rMax`. `accepts` — the simulation `error_recovery` runs
before it resumes — is shown to predict the real driver (`accepts_sim`, `accepts_sim_eof`), so after
a recovery the lookahead is consumed (or the parse ends) without a second recovery. Together with
"every token consumes a character" (`LexerProgress.next_progress`) the nested loops of the driver
never reach the `fuelOut` outcome when started with `parseFuel` (`parseLoop_term`).
-/

namespace Aidl.Props.LrTerm
open Aidl Aidl.Lr Aidl.Actions Aidl.Lexer Aidl.Props.LrSafe

variable (T : Tables) (C : Cert) (P : Pot)

structure PotFacts : Prop where
  next : ∀ q x t, C.hasEdge q x t = true → (P.next q).lookup x = some t
  info : ∀ p prod, T.prods[p]? = some prod →
    P.info p = some (prod.rhsIds, prod.nt, prod.accept) ∧ p ∈ P.prodsOf prod.nt
  edge : ∀ q x g, C.hasEdge q x g = true → P.edgePotOK T q (x, g) = true
  eof : ∀ t, eofActionAt T t ≤ 0
  fuel : 2 * (P.wMax + P.rMax) + 2 ≤ 64

theorem hasEdge_row {q x t : Nat} (h : C.hasEdge q x t = true) :
    ∃ row, (row, q) ∈ C.succ.toList.zipIdx ∧ (x, t) ∈ row := by
  unfold Cert.hasEdge Cert.succOf at h
  cases hr : C.succ[q]? with
  | none => simp [hr] at h
  | some row =>
    refine ⟨row, List.mk_mem_zipIdx_iff_getElem?.mpr (by rw [Array.getElem?_toList]; exact hr), ?_⟩
    simpa [hr] using h

theorem potFacts (h : P.ok T C = true) : PotFacts T C P := by
  unfold Pot.ok at h
  simp only [Bool.and_eq_true] at h
  obtain ⟨⟨⟨⟨hedges, hnext⟩, hinfo⟩, heof⟩, hfuel⟩ := h
  refine ⟨?_, ?_, ?_, ?_, ?_⟩
  · intro q x t he
    obtain ⟨row, h1, h2⟩ := hasEdge_row C he
    unfold Pot.nextOK at hnext
    have := (List.all_eq_true.mp ((List.all_eq_true.mp hnext) (row, q) h1)) (x, t) h2
    simpa using this
  · intro p prod hp
    have hmem : (prod, p) ∈ T.prods.toList.zipIdx :=
      List.mk_mem_zipIdx_iff_getElem?.mpr (by rw [Array.getElem?_toList]; exact hp)
    unfold Pot.infoOK at hinfo
    have := (List.all_eq_true.mp hinfo) (prod, p) hmem
    simpa using this
  · intro q x g he
    obtain ⟨row, h1, h2⟩ := hasEdge_row C he
    unfold Pot.edgesPotOK at hedges
    exact (List.all_eq_true.mp ((List.all_eq_true.mp hedges) (row, q) h1)) (x, g) h2
  · intro t
    unfold eofActionAt
    cases he : T.eof[t]? with
    | none => simp
    | some a =>
      have hmem : a ∈ T.eof.toList := by
        have := (Array.getElem?_eq_some_iff.mp he)
        obtain ⟨hlt, hget⟩ := this
        rw [← hget]
        exact Array.getElem_mem_toList hlt
      unfold Pot.eofNonPos at heof
      simpa using (List.all_eq_true.mp heof) a hmem
  · unfold Pot.fuelOK at hfuel
    simpa using hfuel

/-! ### the potential -/

theorem wOf_le (s : Nat) : P.wOf s ≤ P.wMax := Nat.min_le_right _ _
theorem rOf_le (s : Nat) : P.rOf s ≤ P.rMax := Nat.min_le_right _ _

theorem wSum_cons (t : Nat) (st : List Nat) : P.wSum (t :: st) = P.wOf t + P.wSum st := by
  simp [Pot.wSum]

theorem wSum_nil : P.wSum [] = 0 := rfl

theorem wSum_take_drop (k : Nat) (st : List Nat) : P.wSum st = P.wSum (st.take k) + P.wSum (st.drop k) := by
  unfold Pot.wSum
  rw [← List.sum_append, ← List.map_append, List.take_append_drop]

theorem wSum_drop_le (k : Nat) (st : List Nat) : P.wSum (st.drop k) ≤ P.wSum st := by
  rw [wSum_take_drop P k st]; omega

theorem phi_cons (t : Nat) (st : List Nat) : P.phi (t :: st) = P.wOf t + P.wSum st + P.rOf t := by
  simp [Pot.phi, wSum_cons]

theorem fwd_append (q : Nat) (xs : List Nat) (x : Nat) (c : Nat) :
    P.fwd q (xs ++ [x]) c =
      match P.fwd q xs c with
      | none => none
      | some (s, c') =>
        match (P.next s).lookup x with
        | none => none
        | some s' => some (s', c' + P.wOf s') := by
  induction xs generalizing q c with
  | nil =>
    simp only [List.nil_append, Pot.fwd]
    cases (P.next q).lookup x <;> rfl
  | cons y ys ih =>
    simp only [List.cons_append, Pot.fwd]
    cases (P.next q).lookup y with
    | none => rfl
    | some s => exact ih s _

/-- the stack above `q` is the path `fwd` follows -/
theorem fwd_sound (PF : PotFacts T C P) :
    ∀ (k : Nat) (t : Nat) (st : List Nat) (sy : List Sym), Chain C (t :: st) sy → k ≤ sy.length → ∀ c,
      ∃ q rest, (t :: st).drop k = q :: rest ∧
        P.fwd q (((sy.take k).reverse).map (·.id)) c = some (t, c + P.wSum ((t :: st).take k)) := by
  intro k
  induction k with
  | zero => intro t st sy _ _ c; exact ⟨t, st, rfl, by simp [Pot.fwd, wSum_nil]⟩
  | succ k ih =>
    intro t st sy hc hk c
    cases hc with
    | base => simp at hk
    | step hc' he =>
      rename_i q' qs X syms
      obtain ⟨q, rest, h1, h2⟩ := ih q' qs syms hc' (by simpa using hk) c
      refine ⟨q, rest, by simpa using h1, ?_⟩
      have hids : (((X :: syms).take (k + 1)).reverse).map (·.id) = ((syms.take k).reverse).map (·.id) ++ [X.id] := by
        simp
      rw [hids, fwd_append, h2]
      dsimp only
      rw [PF.next q' X.id t he]
      dsimp only
      rw [List.take_succ_cons, wSum_cons]
      congr 2
      omega

/-! ### `reduce` -/

theorem reduceCore_none {env : Env} {s s' : St} {prod : Production} {la : Option Nat}
    (h : reduceCore T env s prod la = (s', none)) :
    prod.accept = false
    ∧ s'.states = gotoOf T ((s.states.drop prod.pops).headD 0) prod.nt :: s.states.drop prod.pops
    ∧ (∃ x, s'.syms = x :: s.syms.drop prod.rhs.length ∧ x.id = T.ncols + prod.nt)
    ∧ s'.input = s.input := by
  unfold reduceCore at h
  dsimp only at h
  split at h
  · cases h
  · unfold reducePush at h
    dsimp only at h
    split at h
    · cases h
    · rename_i hacc
      split at h
      · cases h
      · cases h
        exact ⟨by simpa using hacc, rfl, ⟨_, rfl, rfl⟩, rfl⟩

theorem reduceCore_some {env : Env} {s s' : St} {prod : Production} {la : Option Nat} {o : Outcome}
    (h : reduceCore T env s prod la = (s', some o)) : o ≠ .fuelOut := by
  unfold reduceCore at h
  dsimp only at h
  split at h
  · cases h; intro h'; cases h'
  · unfold reducePush at h
    dsimp only at h
    split at h
    · cases h; intro h'; cases h'
    · split at h
      · cases h; intro h'; cases h'
      · cases h

theorem reduce_some {env : Env} {s s' : St} {p : Nat} {la : Option Nat} {o : Outcome}
    (h : reduce T env s p la = (s', some o)) : o ≠ .fuelOut := by
  unfold reduce at h
  split at h
  · cases h; intro h'; cases h'
  · dsimp only at h
    split at h
    · cases h; intro h'; cases h'
    · split at h
      · cases h; intro h'; cases h'
      · exact reduceCore_some T h

/-- **every reduction decreases the potential** (and what it does to the state stack) -/
theorem reduce_pot (F : CertFacts T C) (PF : PotFacts T C P) (env : Env) (s s' : St) (t : Nat) (st : List Nat)
    (p : Nat) (la : Option Nat) (hst : s.states = t :: st) (hc : Chain C s.states s.syms)
    (hred : C.redOK T t p = true) (h : reduce T env s p la = (s', none)) :
    Chain C s'.states s'.syms ∧ P.phi s'.states + 1 ≤ P.phi s.states ∧ s'.input = s.input
    ∧ ∃ prod, T.prods[p]? = some prod ∧ prod.accept = false
        ∧ s'.states = gotoOf T ((s.states.drop prod.pops).headD 0) prod.nt :: s.states.drop prod.pops := by
  obtain ⟨prod, hp, hk, ⟨hids, hlen⟩, heq, _, hchain⟩ := reduce_safe T C F env s t st p la hst hc hred
  have hc' := hchain s' h
  rw [heq] at h
  obtain ⟨hacc, hstates, ⟨x, hsyms, hx⟩, hinput⟩ := reduceCore_none T h
  have hpops : prod.pops = prod.rhsIds.length := by
    unfold Cert.redOK at hred
    simp only [hp, Bool.and_eq_true, beq_iff_eq] at hred
    exact hred.1.2
  refine ⟨hc', ?_, hinput, prod, hp, hacc, hstates⟩
  rw [hst] at hc
  obtain ⟨q, rest, hdrop, hfwd⟩ := fwd_sound T C P PF prod.rhs.length t st s.syms hc hk 0
  rw [hids] at hfwd
  rw [hst, hpops, ← hlen, hdrop] at hstates
  simp only [List.headD_cons] at hstates
  generalize gotoOf T q prod.nt = g at hstates
  rw [hstates, hsyms] at hc'
  cases hc' with
  | step hc'' he =>
    rw [hx] at he
    have hedge := PF.edge q _ _ he
    obtain ⟨hinfo, hmem⟩ := PF.info p prod hp
    unfold Pot.edgePotOK at hedge
    have hnlt : ¬ (T.ncols + prod.nt < T.ncols) := by omega
    simp only [hnlt, if_false, Nat.add_sub_cancel_left] at hedge
    have := (List.all_eq_true.mp hedge) p hmem
    simp only [hinfo, hacc, Bool.false_or, hfwd, PF.next q _ _ he, decide_eq_true_eq] at this
    have h1 := wSum_take_drop P prod.rhs.length (t :: st)
    rw [hdrop] at h1
    rw [hstates, hst, phi_cons]
    unfold Pot.phi
    simp only [List.headD_cons]
    omega

/-! ### the pieces of the driver -/

theorem top_cons {s : St} (hc : Chain C s.states s.syms) : ∃ st, s.states = topState s :: st := by
  unfold topState
  cases hc' : s.states with
  | nil => have := hc.length; rw [hc'] at this; simp at this
  | cons t st => exact ⟨st, rfl⟩

theorem shift_or_reduce {a : Int} (h : a ≠ 0) : (asShift a).isSome = true ∨ (asReduce a).isSome = true := by
  unfold asShift asReduce
  by_cases hp : a > 0
  · left; simp [hp]
  · right
    have : a < 0 := by omega
    simp [this]

/-- every token consumes at least one character (`LexerProgress.next_progress` for the table of this run) -/
def LexProg : Prop :=
  ∀ (fuel : Nat) (s : List Char) (p : Nat) (t : Token) (rest : List Char),
    Lexer.next T.lex fuel s p = .token t rest → rest.length < s.length

theorem nextToken_facts (hL : LexProg T) (s : St) :
    match nextToken T s with
    | (s', .found _ _) => s'.states = s.states ∧ s'.syms = s.syms ∧ s'.input.length < s.input.length
    | (s', .eof) => s' = s
    | (_, .done o) => o ≠ .fuelOut := by
  unfold nextToken
  cases hn : Lexer.next T.lex (s.input.length + 1) s.input s.pos with
  | eof => rfl
  | invalid l => dsimp only; intro h; cases h
  | token t rest =>
    dsimp only
    cases T.tokToCol.lookup t.index with
    | some col => exact ⟨rfl, rfl, hL _ _ _ _ _ hn⟩
    | none => dsimp only; intro h; cases h

theorem shift_pot (F : CertFacts T C) {s : St} (hc : Chain C s.states s.syms) {col target : Nat} (x : Sym)
    (hx : x.id = col) (hs : asShift (actionAt T (topState s) col) = some target) :
    Chain C (target :: s.states) (x :: s.syms) ∧ P.phi (target :: s.states) ≤ P.phi s.states + (P.wMax + P.rMax) := by
  obtain ⟨st, hst⟩ := top_cons C hc
  have he := F.shift _ _ _ hs
  rw [← hx] at he
  rw [hst] at hc ⊢
  refine ⟨Chain.step hc he, ?_⟩
  rw [phi_cons]
  unfold Pot.phi
  have := wOf_le P target
  have := rOf_le P target
  omega

variable (env : Env)

/-- `error_recovery`, first loop -/
theorem reduceOnError_term (F : CertFacts T C) (PF : PotFacts T C P) (la : Option Token) :
    ∀ (fuel : Nat) (s : St), Chain C s.states s.syms → P.phi s.states < fuel →
      match reduceOnError T env la s fuel with
      | (_, some o) => o ≠ .fuelOut
      | (s', none) => Chain C s'.states s'.syms ∧ P.phi s'.states ≤ P.phi s.states ∧ s'.input = s.input := by
  intro fuel
  induction fuel with
  | zero => intro s _ h; omega
  | succ f ih =>
    intro s hc hphi
    unfold reduceOnError
    cases hr : asReduce (errorAction T (topState s)) with
    | none => exact ⟨hc, Nat.le_refl _, rfl⟩
    | some r =>
      dsimp only
      obtain ⟨st, hst⟩ := top_cons C hc
      have hred := F.red (topState s) (T.ncols - 1) r hr
      cases hres : reduce T env s r (la.map (·.start)) with
      | mk s' oo =>
        cases oo with
        | some o => exact reduce_some T hres
        | none =>
          dsimp only
          obtain ⟨hc', hphi', hin, _⟩ := reduce_pot T C P F PF env s s' _ st r _ hst hc hred hres
          have := ih s' hc' (by omega)
          revert this
          cases reduceOnError T env la s' f with
          | mk s'' oo' =>
            cases oo' with
            | some o => exact id
            | none => intro hx; exact ⟨hx.1, by omega, by rw [hx.2.2, hin]⟩

/-- `error_recovery`, second loop: every dropped token shortens the rest of the input -/
theorem findState_term (hL : LexProg T) (error : ParseErr) (statesLen : Nat) :
    ∀ (fuel : Nat) (s : St) (la : Option Token) (col : Option Nat) (dropped : List Token),
      s.input.length + (if la.isSome then 2 else 1) ≤ fuel →
      match findState T error statesLen s la col dropped fuel with
      | (_, .inl (.done o)) => o ≠ .fuelOut
      | (_, .inl _) => False
      | (s', .inr (top, _, col', _)) =>
          s'.states = s.states ∧ s'.syms = s.syms ∧ s'.input.length ≤ s.input.length
          ∧ errorCandidate T statesLen s' col' = some top := by
  intro fuel
  induction fuel with
  | zero => intro s la col dropped h; split at h <;> omega
  | succ f ih =>
    intro s la col dropped hf
    unfold findState
    cases hcand : errorCandidate T statesLen s col with
    | some top => exact ⟨rfl, rfl, Nat.le_refl _, hcand⟩
    | none =>
      dsimp only
      cases la with
      | none => dsimp only; intro h; cases h
      | some l =>
        dsimp only
        simp only [Option.isSome_some, if_true] at hf
        have hn := nextToken_facts T hL s
        cases hnt : nextToken T s with
        | mk s' r =>
          rw [hnt] at hn
          cases r with
          | found t c =>
            dsimp only at hn ⊢
            have := ih s' (some t) (some c) (dropped ++ [l]) (by simp only [Option.isSome_some, if_true]; omega)
            revert this
            cases findState T error statesLen s' (some t) (some c) (dropped ++ [l]) f with
            | mk s'' r =>
              cases r with
              | inl nt => cases nt <;> exact id
              | inr x =>
                intro hx
                exact ⟨by rw [hx.1, hn.1], by rw [hx.2.1, hn.2.1], by omega, hx.2.2.2⟩
          | eof =>
            dsimp only at hn ⊢
            have := ih s' none none (dropped ++ [l]) (by simp; rw [hn]; omega)
            revert this
            cases findState T error statesLen s' none none (dropped ++ [l]) f with
            | mk s'' r =>
              cases r with
              | inl nt => cases nt <;> exact id
              | inr x =>
                intro hx
                rw [hn] at hx
                exact hx
          | done o => exact hn

/-- a candidate found by `error_recovery` is a state that shifts `error` into a state from which
    `accepts` predicts that the lookahead will be consumed -/
theorem errorCandidate_accepts {statesLen : Nat} {s : St} {col : Option Nat} {top : Nat}
    (h : errorCandidate T statesLen s col = some top) :
    top < statesLen ∧ ∃ errState n,
      asShift (errorAction T ((s.states.drop (statesLen - 1 - top)).headD 0)) = some errState
      ∧ accepts.loop T col (errState :: s.states.drop (statesLen - 1 - top)) n = some true := by
  unfold errorCandidate at h
  have hmem := List.mem_of_find?_eq_some h
  have hp := List.find?_some h
  refine ⟨by simpa using hmem, ?_⟩
  dsimp only at hp
  split at hp
  · rename_i e he
    refine ⟨e, statesLen + 1023, he, ?_⟩
    have h1 : statesLen + 1024 = (statesLen + 1023) + 1 := by omega
    rw [h1] at hp
    unfold accepts at hp
    dsimp only at hp
    cases hacc : accepts.loop T col (e :: s.states.drop (statesLen - 1 - top)) (statesLen + 1023) with
    | none => rw [hacc] at hp; cases hp
    | some b => rw [hacc] at hp; cases b <;> simp_all
  · cases hp

/-- `error_recovery`, the end -/
theorem recoverPush_facts (F : CertFacts T C) (error : ParseErr) (statesLen : Nat) (s : St) (top : Nat)
    (la : Option Token) (col : Option Nat) (dropped : List Token) (errState : Nat)
    (hc : Chain C s.states s.syms) (hlen : s.states.length = statesLen) (htop : top < statesLen)
    (hsh : asShift (errorAction T ((s.states.drop (statesLen - 1 - top)).headD 0)) = some errState) :
    match recoverPush T error statesLen s top la col dropped with
    | (s', .found _ c) => s'.states = errState :: s.states.drop (statesLen - 1 - top) ∧ Chain C s'.states s'.syms
        ∧ s'.input = s.input ∧ col = some c
    | (s', .eof) => s'.states = errState :: s.states.drop (statesLen - 1 - top) ∧ Chain C s'.states s'.syms
        ∧ s'.input = s.input ∧ col = none
    | (_, .done o) => o ≠ .fuelOut := by
  have hsl := hc.length
  have hn : statesLen - 1 - top ≤ s.syms.length := by omega
  have hdrop := hc.drop (statesLen - 1 - top) hn
  have hsyms : (s.syms.reverse.take top).reverse = s.syms.drop (statesLen - 1 - top) := by
    rw [List.take_reverse, List.reverse_reverse]
    congr 1
    omega
  unfold recoverPush
  dsimp only
  rw [hsh]
  dsimp only
  have hne : ∃ q rest, s.states.drop (statesLen - 1 - top) = q :: rest := by
    cases hd : s.states.drop (statesLen - 1 - top) with
    | nil =>
      have := congrArg List.length hd
      simp only [List.length_drop, List.length_nil] at this
      omega
    | cons q rest => exact ⟨q, rest, rfl⟩
  obtain ⟨q, rest, hq⟩ := hne
  have hsh' := hsh
  rw [hq] at hsh' hdrop
  simp only [List.headD_cons] at hsh'
  have hedge := F.shift q (T.ncols - 1) errState hsh'
  have hchain : ∀ (x : Sym), x.id = T.ncols - 1 →
      Chain C (errState :: s.states.drop (statesLen - 1 - top)) (x :: (s.syms.reverse.take top).reverse) := by
    intro x hx
    rw [hsyms, hq]
    rw [← hx] at hedge
    exact Chain.step hdrop hedge
  cases la with
  | some l =>
    cases col with
    | some c => exact ⟨rfl, hchain _ rfl, rfl, rfl⟩
    | none => dsimp only; intro h; cases h
  | none =>
    cases col with
    | some c => dsimp only; intro h; cases h
    | none => exact ⟨rfl, hchain _ rfl, rfl, rfl⟩

/-! ### `accepts` predicts the real driver -/

/-- what `parseInner` may return when it does not run out of steps -/
def InnerOk (s : St) (bound : Nat) : St × Sum Unit Outcome → Prop
  | (s', .inl ()) => Chain C s'.states s'.syms ∧ P.phi s'.states ≤ bound ∧ s'.input.length ≤ s.input.length
  | (_, .inr o) => o ≠ .fuelOut

/-- if the simulation says that the lookahead will be accepted, the driver — started with more steps
    than the potential — reduces and shifts it (or stops) without entering error recovery again -/
theorem accepts_sim (F : CertFacts T C) (PF : PotFacts T C P) (la : Token) (c : Nat) :
    ∀ (n : Nat) (states : List Nat), accepts.loop T (some c) states n = some true →
      ∀ (fuel : Nat) (s : St), s.states = states → Chain C s.states s.syms → P.phi s.states < fuel →
        InnerOk C P s (P.phi s.states + (P.wMax + P.rMax)) (parseInner T env s la c fuel) := by
  intro n
  induction n with
  | zero => intro states h; simp [accepts.loop] at h
  | succ n ih =>
    intro states h fuel s hs hc hphi
    cases fuel with
    | zero => omega
    | succ f =>
      unfold accepts.loop at h
      dsimp only at h
      have htop : states.headD 0 = topState s := by rw [← hs]; rfl
      rw [htop] at h
      unfold parseInner
      dsimp only
      by_cases ha0 : actionAt T (topState s) c = 0
      · rw [if_pos ha0] at h; cases h
      · rw [if_neg ha0] at h
        cases hsh : asShift (actionAt T (topState s) c) with
        | some target =>
          dsimp only
          obtain ⟨h1, h2⟩ := shift_pot T C P F hc
            { start := la.start, id := c, name := T.terminals[c]?.getD "?", val := .tok la.text, stop := la.stop, toks := [c] }
            rfl hsh
          exact ⟨h1, h2, Nat.le_refl _⟩
        | none =>
          dsimp only
          cases hr : asReduce (actionAt T (topState s) c) with
          | none =>
            rcases shift_or_reduce ha0 with h' | h'
            · rw [hsh] at h'; cases h'
            · rw [hr] at h'; cases h'
          | some r =>
            rw [hr] at h
            dsimp only at h ⊢
            obtain ⟨st, hst⟩ := top_cons C hc
            have hred := F.red (topState s) c r hr
            cases hres : reduce T env s r (some la.start) with
            | mk s' oo =>
              cases oo with
              | some o =>
                have := reduce_some T hres
                cases o with
                | accept v => dsimp only; intro h'; cases h'
                | fuelOut => exact absurd rfl this
                | error e => dsimp only; intro h'; cases h'
                | panic m => dsimp only; intro h'; cases h'
                | actionPanic p => dsimp only; intro h'; cases h'
              | none =>
                dsimp only
                obtain ⟨hc', hphi', hin, prod, hp, hacc, hstates⟩ :=
                  reduce_pot T C P F PF env s s' _ st r _ hst hc hred hres
                rw [hp] at h
                dsimp only at h
                rw [hacc] at h
                simp only [Bool.false_eq_true, if_false] at h
                rw [hs] at hstates
                have := ih _ h f s' hstates hc' (by omega)
                revert this
                cases parseInner T env s' la c f with
                | mk s'' r' =>
                  cases r' with
                  | inl u => cases u; intro hx; exact ⟨hx.1, by have := hx.2.1; omega, by rw [← hin]; exact hx.2.2⟩
                  | inr o => exact id

theorem accepts_sim_eof (F : CertFacts T C) (PF : PotFacts T C P) :
    ∀ (n : Nat) (states : List Nat), accepts.loop T none states n = some true →
      ∀ (fuel : Nat) (s : St), s.states = states → Chain C s.states s.syms → P.phi s.states < fuel →
        (parseEof T env s fuel).2 ≠ .fuelOut := by
  intro n
  induction n with
  | zero => intro states h; simp [accepts.loop] at h
  | succ n ih =>
    intro states h fuel s hs hc hphi
    cases fuel with
    | zero => omega
    | succ f =>
      unfold accepts.loop at h
      dsimp only at h
      have htop : states.headD 0 = topState s := by rw [← hs]; rfl
      rw [htop] at h
      unfold parseEof
      by_cases ha0 : eofActionAt T (topState s) = 0
      · rw [if_pos ha0] at h; cases h
      · rw [if_neg ha0] at h
        cases hr : asReduce (eofActionAt T (topState s)) with
        | none =>
          exfalso
          have := PF.eof (topState s)
          unfold asReduce at hr
          split at hr
          · cases hr
          · omega
        | some r =>
          rw [hr] at h
          dsimp only at h ⊢
          obtain ⟨st, hst⟩ := top_cons C hc
          have hred := F.redEof (topState s) r hr
          cases hres : reduce T env s r none with
          | mk s' oo =>
            cases oo with
            | some o => exact reduce_some T hres
            | none =>
              dsimp only
              obtain ⟨hc', hphi', hin, prod, hp, hacc, hstates⟩ :=
                reduce_pot T C P F PF env s s' _ st r _ hst hc hred hres
              rw [hp] at h
              dsimp only at h
              rw [hacc] at h
              simp only [Bool.false_eq_true, if_false] at h
              rw [hs] at hstates
              exact ih _ h f s' hstates hc' (by omega)

/-! ### the loops -/

/-- `error_recovery` -/
theorem errorRecovery_term (F : CertFacts T C) (PF : PotFacts T C P) (hL : LexProg T)
    (s : St) (la : Option Token) (col : Option Nat) (fuel : Nat)
    (hc : Chain C s.states s.syms) (hphi : P.phi s.states < fuel) (hin : s.input.length + 2 ≤ fuel) :
    match errorRecovery T env s la col fuel with
    | (s2, .found _ c) => Chain C s2.states s2.syms ∧ P.phi s2.states ≤ P.phi s.states + (P.wMax + P.rMax)
        ∧ s2.input.length ≤ s.input.length ∧ ∃ n, accepts.loop T (some c) s2.states n = some true
    | (s2, .eof) => Chain C s2.states s2.syms ∧ P.phi s2.states ≤ P.phi s.states + (P.wMax + P.rMax)
        ∧ ∃ n, accepts.loop T none s2.states n = some true
    | (_, .done o) => o ≠ .fuelOut := by
  unfold errorRecovery
  dsimp only
  have h1 := reduceOnError_term T C P env F PF la fuel s hc hphi
  cases hroe : reduceOnError T env la s fuel with
  | mk s1 oo =>
    rw [hroe] at h1
    cases oo with
    | some o => exact h1
    | none =>
      dsimp only at h1 ⊢
      obtain ⟨hc1, hphi1, hin1⟩ := h1
      have h2 := findState_term T hL (unrecognized T s la) s1.states.length fuel s1 la col []
        (by rw [hin1]; split <;> omega)
      cases hfs : findState T (unrecognized T s la) s1.states.length s1 la col [] fuel with
      | mk s1' r =>
        rw [hfs] at h2
        cases r with
        | inl nt =>
          cases nt with
          | done o => exact h2
          | found t c => exact h2.elim
          | eof => exact h2.elim
        | inr x =>
          obtain ⟨top, la', col', dropped'⟩ := x
          dsimp only at h2 ⊢
          obtain ⟨hst, hsy, hlen, hcand⟩ := h2
          obtain ⟨htop, errState, n, hsh, hacc⟩ := errorCandidate_accepts T hcand
          have hc1' : Chain C s1'.states s1'.syms := by rw [hst, hsy]; exact hc1
          have h3 := recoverPush_facts T C F (unrecognized T s la) s1.states.length s1' top la' col' dropped' errState
            hc1' (by rw [hst]) htop hsh
          have hbound : P.phi (errState :: s1'.states.drop (s1.states.length - 1 - top)) ≤ P.phi s.states + (P.wMax + P.rMax) := by
            rw [phi_cons]
            have := wOf_le P errState
            have := rOf_le P errState
            have := wSum_drop_le P (s1.states.length - 1 - top) s1'.states
            have : P.wSum s1'.states ≤ P.phi s1.states := by rw [hst]; unfold Pot.phi; omega
            omega
          revert h3
          cases recoverPush T (unrecognized T s la) s1.states.length s1' top la' col' dropped' with
          | mk s2 r2 =>
            cases r2 with
            | found l c =>
              intro h3
              obtain ⟨h31, h32, h33, h34⟩ := h3
              subst h34
              exact ⟨h32, by rw [h31]; exact hbound, by rw [h33, ← hin1]; exact hlen, n, by rw [h31]; exact hacc⟩
            | eof =>
              intro h3
              obtain ⟨h31, h32, h33, h34⟩ := h3
              subst h34
              exact ⟨h32, by rw [h31]; exact hbound, n, by rw [h31]; exact hacc⟩
            | done o => exact id

/-- `parse_eof` -/
theorem parseEof_term (F : CertFacts T C) (PF : PotFacts T C P) (hL : LexProg T) :
    ∀ (fuel : Nat) (s : St), Chain C s.states s.syms →
      P.phi s.states + (P.wMax + P.rMax) + s.input.length + 2 < fuel →
      (parseEof T env s fuel).2 ≠ .fuelOut := by
  intro fuel
  induction fuel with
  | zero => intro s _ h; omega
  | succ f ih =>
    intro s hc hf
    unfold parseEof
    cases hr : asReduce (eofActionAt T (topState s)) with
    | some r =>
      dsimp only
      obtain ⟨st, hst⟩ := top_cons C hc
      have hred := F.redEof (topState s) r hr
      cases hres : reduce T env s r none with
      | mk s' oo =>
        cases oo with
        | some o => exact reduce_some T hres
        | none =>
          dsimp only
          obtain ⟨hc', hphi', hin, _⟩ := reduce_pot T C P F PF env s s' _ st r _ hst hc hred hres
          exact ih s' hc' (by rw [hin]; omega)
    | none =>
      dsimp only
      have h1 := errorRecovery_term T C P env F PF hL s none none f hc (by omega) (by omega)
      revert h1
      cases errorRecovery T env s none none f with
      | mk s2 r2 =>
        cases r2 with
        | found l c => intro _; dsimp only; intro h'; cases h'
        | done o => exact id
        | eof =>
          intro h1
          obtain ⟨hc2, hphi2, n, hacc⟩ := h1
          exact accepts_sim_eof T C P env F PF n _ hacc f s2 rfl hc2 (by omega)

/-- the `'inner` loop of `parse` -/
theorem parseInner_term (F : CertFacts T C) (PF : PotFacts T C P) (hL : LexProg T) :
    ∀ (fuel : Nat) (s : St) (la : Token) (c : Nat), Chain C s.states s.syms →
      P.phi s.states + (P.wMax + P.rMax) + s.input.length + 2 < fuel →
      InnerOk C P s (P.phi s.states + 2 * (P.wMax + P.rMax)) (parseInner T env s la c fuel) := by
  intro fuel
  induction fuel with
  | zero => intro s _ _ _ h; omega
  | succ f ih =>
    intro s la c hc hf
    unfold parseInner
    dsimp only
    cases hsh : asShift (actionAt T (topState s) c) with
    | some target =>
      dsimp only
      obtain ⟨h1, h2⟩ := shift_pot T C P F hc
        { start := la.start, id := c, name := T.terminals[c]?.getD "?", val := .tok la.text, stop := la.stop, toks := [c] }
        rfl hsh
      exact ⟨h1, Nat.le_trans h2 (by omega), Nat.le_refl _⟩
    | none =>
      dsimp only
      cases hr : asReduce (actionAt T (topState s) c) with
      | some r =>
        dsimp only
        obtain ⟨st, hst⟩ := top_cons C hc
        have hred := F.red (topState s) c r hr
        cases hres : reduce T env s r (some la.start) with
        | mk s' oo =>
          cases oo with
          | some o =>
            have := reduce_some T hres
            cases o with
            | accept v => dsimp only; intro h'; cases h'
            | fuelOut => exact absurd rfl this
            | error e => dsimp only; intro h'; cases h'
            | panic m => dsimp only; intro h'; cases h'
            | actionPanic p => dsimp only; intro h'; cases h'
          | none =>
            dsimp only
            obtain ⟨hc', hphi', hin, _⟩ := reduce_pot T C P F PF env s s' _ st r _ hst hc hred hres
            have := ih s' la c hc' (by rw [hin]; omega)
            revert this
            cases parseInner T env s' la c f with
            | mk s'' r' =>
              cases r' with
              | inl u => cases u; intro hx; exact ⟨hx.1, by have := hx.2.1; omega, by rw [← hin]; exact hx.2.2⟩
              | inr o => exact id
      | none =>
        dsimp only
        have h1 := errorRecovery_term T C P env F PF hL s (some la) (some c) f hc (by omega) (by omega)
        revert h1
        cases errorRecovery T env s (some la) (some c) f with
        | mk s2 r2 =>
          cases r2 with
          | done o => exact id
          | eof =>
            intro h1
            obtain ⟨hc2, hphi2, n, hacc⟩ := h1
            exact accepts_sim_eof T C P env F PF n _ hacc f s2 rfl hc2 (by omega)
          | found l c' =>
            intro h1
            obtain ⟨hc2, hphi2, hin2, n, hacc⟩ := h1
            have := accepts_sim T C P env F PF l c' n _ hacc f s2 rfl hc2 (by omega)
            dsimp only
            revert this
            cases parseInner T env s2 l c' f with
            | mk s'' r' =>
              cases r' with
              | inl u => cases u; intro hx; exact ⟨hx.1, by have := hx.2.1; omega, by have := hx.2.2; omega⟩
              | inr o => exact id

theorem mul_step (D n m : Nat) (h : m + 1 ≤ n) : D * m + D ≤ D * n := by
  calc D * m + D = D * (m + 1) := (Nat.mul_succ D m).symm
    _ ≤ D * n := Nat.mul_le_mul_left D h

/-- `parse` (the `'shift` loop) -/
theorem parseLoop_term (F : CertFacts T C) (PF : PotFacts T C P) (hL : LexProg T) :
    ∀ (fuel : Nat) (s : St), Chain C s.states s.syms →
      P.phi s.states + (2 * (P.wMax + P.rMax) + 2) * s.input.length + (P.wMax + P.rMax) + 3 < fuel →
      (parseLoop T env s fuel).2 ≠ .fuelOut := by
  intro fuel
  induction fuel with
  | zero => intro s _ h; omega
  | succ f ih =>
    intro s hc hf
    unfold parseLoop
    have hn := nextToken_facts T hL s
    have hge : s.input.length ≤ (2 * (P.wMax + P.rMax) + 2) * s.input.length := by
      have := Nat.mul_le_mul_right s.input.length (show 1 ≤ 2 * (P.wMax + P.rMax) + 2 by omega)
      omega
    cases hnt : nextToken T s with
    | mk s1 r =>
      rw [hnt] at hn
      cases r with
      | eof =>
        dsimp only at hn ⊢
        rw [hn]
        exact parseEof_term T C P env F PF hL f s hc (by omega)
      | done o => exact hn
      | found la c =>
        dsimp only at hn ⊢
        obtain ⟨hst, hsy, hlt⟩ := hn
        have hc1 : Chain C s1.states s1.syms := by rw [hst, hsy]; exact hc
        have hstep := mul_step (2 * (P.wMax + P.rMax) + 2) s.input.length s1.input.length (by omega)
        have h1 := parseInner_term T C P env F PF hL f s1 la c hc1 (by rw [hst]; omega)
        revert h1
        cases parseInner T env s1 la c f with
        | mk s2 r2 =>
          cases r2 with
          | inr o => exact id
          | inl u =>
            cases u
            intro h1
            obtain ⟨hc2, hphi2, hin2⟩ := h1
            dsimp only
            have hmono := Nat.mul_le_mul_left (2 * (P.wMax + P.rMax) + 2) hin2
            rw [hst] at hphi2
            exact ih s2 hc2 (by omega)

/-- **For every input**: started with `parseFuel` steps, the driver never reaches its step bound -/
theorem parse_term (F : CertFacts T C) (PF : PotFacts T C P) (hL : LexProg T) (text : List Char) :
    (parseLoop T env { input := text } (64 * (text.length + 2) + 1024)).2 ≠ .fuelOut := by
  apply parseLoop_term T C P env F PF hL _ _ Chain.base
  have hf := PF.fuel
  have h0 : P.phi [0] ≤ P.wMax + P.rMax := by
    rw [phi_cons, wSum_nil]
    have := wOf_le P 0
    have := rOf_le P 0
    omega
  have := Nat.mul_le_mul_right text.length hf
  show P.phi [0] + (2 * (P.wMax + P.rMax) + 2) * text.length + (P.wMax + P.rMax) + 3 < 64 * (text.length + 2) + 1024
  omega

/-! ### the step bound of `accepts` is never reached either -/

/-- a reduction seen on the state stack alone (what `accepts` simulates) -/
theorem stack_reduce (F : CertFacts T C) (PF : PotFacts T C P) (t : Nat) (st : List Nat) (sy : List Sym) (p : Nat)
    (hc : Chain C (t :: st) sy) (hred : C.redOK T t p = true) :
    ∃ prod, T.prods[p]? = some prod ∧ (prod.accept = false →
      ∃ sy', Chain C (gotoOf T (((t :: st).drop prod.pops).headD 0) prod.nt :: (t :: st).drop prod.pops) sy'
        ∧ P.phi (gotoOf T (((t :: st).drop prod.pops).headD 0) prod.nt :: (t :: st).drop prod.pops) + 1 ≤ P.phi (t :: st)) := by
  have hred0 := hred
  unfold Cert.redOK at hred
  cases hp : T.prods[p]? with
  | none => simp [hp] at hred
  | some prod =>
    refine ⟨prod, rfl, fun hacc => ?_⟩
    simp only [hp, Bool.and_eq_true, beq_iff_eq] at hred
    obtain ⟨⟨hlen1, hlen2⟩, hbw⟩ := hred
    cases hb : C.backWalk [t] prod.rhsIds.reverse with
    | none => simp [hb] at hbw
    | some q0s =>
      simp only [hb, hacc, Bool.false_eq_true, if_false] at hbw
      obtain ⟨h1, h2, q0, r, h3, h4⟩ := backWalk_sound T C F _ [t] t st sy q0s hc (by simp) hb
      simp only [List.length_reverse] at h1 h2 h3
      have hedge := (List.all_eq_true.mp hbw) q0 h4
      have hdropc := hc.drop prod.rhsIds.length h1
      rw [hlen2, h3]
      rw [h3] at hdropc
      simp only [List.headD_cons]
      let X : Sym := { start := 0, id := T.ncols + prod.nt, name := "", val := .none_, stop := 0 }
      refine ⟨X :: sy.drop prod.rhsIds.length, Chain.step hdropc hedge, ?_⟩
      -- the potential: as in `reduce_pot`
      obtain ⟨q, rest, hdrop, hfwd⟩ := fwd_sound T C P PF prod.rhsIds.length t st sy hc h1 0
      rw [h3] at hdrop
      cases hdrop
      have hids : ((sy.take prod.rhsIds.length).reverse).map (·.id) = prod.rhsIds := reverse_take_map_eq h2
      rw [hids] at hfwd
      have hpe := PF.edge q0 _ _ hedge
      obtain ⟨hinfo, hmem⟩ := PF.info p prod hp
      unfold Pot.edgePotOK at hpe
      have hnlt : ¬ (T.ncols + prod.nt < T.ncols) := by omega
      simp only [hnlt, if_false, Nat.add_sub_cancel_left] at hpe
      have := (List.all_eq_true.mp hpe) p hmem
      simp only [hinfo, hacc, Bool.false_or, hfwd, PF.next q0 _ _ hedge, decide_eq_true_eq] at this
      have hsum := wSum_take_drop P prod.rhsIds.length (t :: st)
      rw [h3] at hsum
      rw [phi_cons]
      unfold Pot.phi
      simp only [List.headD_cons]
      omega

/-- with more steps than the potential, the simulation gives an answer -/
theorem accepts_total (F : CertFacts T C) (PF : PotFacts T C P) (col : Option Nat) :
    ∀ (n : Nat) (states : List Nat) (sy : List Sym), Chain C states sy → P.phi states < n →
      accepts.loop T col states n ≠ none := by
  intro n
  induction n with
  | zero => intro states sy _ h; omega
  | succ n ih =>
    intro states sy hc hphi
    have hne : ∃ t st, states = t :: st := by
      cases states with
      | nil => have := hc.length; simp at this
      | cons t st => exact ⟨t, st, rfl⟩
    obtain ⟨t, st, rfl⟩ := hne
    have key : ∀ (a : Int), (∀ r, asReduce a = some r → C.redOK T t r = true) →
        (if a = 0 then some false
         else match asReduce a with
          | some r =>
            match T.prods[r]? with
            | none => none
            | some prod =>
              if prod.accept then some true
              else accepts.loop T col (gotoOf T (((t :: st).drop prod.pops).headD 0) prod.nt :: (t :: st).drop prod.pops) n
          | none => some true) ≠ none := by
      intro a hredA
      by_cases ha0 : a = 0
      · rw [if_pos ha0]; intro h; cases h
      · rw [if_neg ha0]
        cases hr : asReduce a with
        | none => dsimp only; intro h; cases h
        | some r =>
          dsimp only
          obtain ⟨prod, hp, hstep⟩ := stack_reduce T C P F PF t st sy r hc (hredA r hr)
          rw [hp]
          dsimp only
          cases hacc : prod.accept with
          | true => simp
          | false =>
            simp only [Bool.false_eq_true, if_false]
            obtain ⟨sy', hc', hphi'⟩ := hstep hacc
            exact ih _ sy' hc' (by omega)
    unfold accepts.loop
    cases col with
    | none => exact key (eofActionAt T t) (fun r hr => F.redEof t r hr)
    | some i => exact key (actionAt T t i) (fun r hr => F.red t i r hr)

theorem wSum_le (l : List Nat) : P.wSum l ≤ P.wMax * l.length := by
  induction l with
  | nil => simp [wSum_nil]
  | cons x xs ih =>
    rw [wSum_cons, List.length_cons, Nat.mul_succ]
    have := wOf_le P x
    omega

/-- **the simulation inside `error_recovery` never runs out of its own step bound** (so the model's
    `getD false` on its result hides nothing), provided `wMax ≤ 1` and `wMax + rMax < 1023` -/
theorem errorCandidate_total (F : CertFacts T C) (PF : PotFacts T C P) (hw : P.wMax ≤ 1) (hr : P.wMax + P.rMax < 1023)
    (s : St) (hc : Chain C s.states s.syms) (top : Nat) (col : Option Nat) (errState : Nat)
    (htop : top < s.states.length)
    (hsh : asShift (errorAction T ((s.states.drop (s.states.length - 1 - top)).headD 0)) = some errState) :
    accepts T errState (s.states.drop (s.states.length - 1 - top)) col (s.states.length + 1024) ≠ none := by
  have hsl := hc.length
  have hdrop := hc.drop (s.states.length - 1 - top) (by omega)
  have hne : ∃ q rest, s.states.drop (s.states.length - 1 - top) = q :: rest := by
    cases hd : s.states.drop (s.states.length - 1 - top) with
    | nil =>
      have := congrArg List.length hd
      simp only [List.length_drop, List.length_nil] at this
      omega
    | cons q rest => exact ⟨q, rest, rfl⟩
  obtain ⟨q, rest, hq⟩ := hne
  rw [hq] at hsh hdrop
  simp only [List.headD_cons] at hsh
  have hedge := F.shift q (T.ncols - 1) errState hsh
  let X : Sym := { start := 0, id := T.ncols - 1, name := "", val := .none_, stop := 0 }
  have hchain : Chain C (errState :: q :: rest) (X :: s.syms.drop (s.states.length - 1 - top)) := Chain.step hdrop hedge
  have h1 : s.states.length + 1024 = (s.states.length + 1023) + 1 := by omega
  rw [h1]
  unfold accepts
  dsimp only
  rw [hq]
  refine accepts_total T C P F PF col _ _ _ hchain ?_
  rw [phi_cons]
  have := wOf_le P errState
  have := rOf_le P errState
  have h2 := wSum_le P (q :: rest)
  have h3 : (q :: rest).length ≤ s.states.length := by
    rw [← hq, List.length_drop]; omega
  have h4 : P.wMax * (q :: rest).length ≤ (q :: rest).length := by
    have := Nat.mul_le_mul_right (q :: rest).length hw
    omega
  omega

end Aidl.Props.LrTerm
