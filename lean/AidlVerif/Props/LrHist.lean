import AidlVerif.Props.LrCompleteDriver

/-!
# The tokens an accepting run without error recovery has shifted are all the tokens of the text

Ghost field `hist` (the ACTION columns of the tokens shifted so far) against the lexer: while error
recovery has not run, `hist ++ [pending lookahead] ++ (columns of the rest of the input)` is the token
sequence of the whole text. So the soundness theorem (`accepted_derives`: the shifted tokens are
derivable) speaks about THE TEXT: accepted without error recovery ⇒ the text's tokens are derivable.
-/

namespace Aidl.Props.LrHist
open Aidl Aidl.Lr Aidl.Actions Aidl.Lexer Aidl.Props.LrComplete

variable (T : Tables) (env : Env)

/-- the `error` column never reduces by the accepting production (checked on the tables of the run) -/
def ErrColOk : Prop :=
  ∀ q p prod, asReduce (errorAction T q) = some p → T.prods[p]? = some prod → prod.accept = false

theorem lexCols_fun {i : List Char} {p : Nat} {w1 w2 : List Nat} (h1 : LexCols T i p w1) (h2 : LexCols T i p w2) : w1 = w2 := by
  induction h1 generalizing w2 with
  | eof hn =>
    cases h2 with
    | eof _ => rfl
    | tok hn' _ _ => rw [hn] at hn'; cases hn'
  | tok hn hc _ ih =>
    cases h2 with
    | eof hn' => rw [hn] at hn'; cases hn'
    | tok hn' hc' hr' =>
      rw [hn] at hn'
      cases hn'
      rw [hc] at hc'
      cases hc'
      rw [ih hr']

theorem reduce_keeps (s : St) (p : Nat) (la : Option Nat) :
    (reduce T env s p la).1.hist = s.hist ∧ (reduce T env s p la).1.recovered = s.recovered
      ∧ (reduce T env s p la).1.input = s.input ∧ (reduce T env s p la).1.pos = s.pos := by
  unfold reduce
  cases T.prods[p]? with
  | none => exact ⟨rfl, rfl, rfl, rfl⟩
  | some prod =>
    dsimp only
    split
    · exact ⟨rfl, rfl, rfl, rfl⟩
    · split
      · exact ⟨rfl, rfl, rfl, rfl⟩
      · unfold reduceCore
        dsimp only
        split
        · exact ⟨rfl, rfl, rfl, rfl⟩
        · unfold reducePush
          dsimp only
          split
          · exact ⟨rfl, rfl, rfl, rfl⟩
          · split <;> exact ⟨rfl, rfl, rfl, rfl⟩

/-- while no recovery has run, `Q` holds of the tokens read so far (shifted ones and the pending
    lookahead) and the current lexer position -/
def HInv (Q : List Nat → List Char → Nat → Prop) (s : St) (pending : List Nat) : Prop :=
  s.recovered = false → Q (s.hist ++ pending) s.input s.pos

/-- what matters at the end -/
def HEnd (Final : List Nat → Prop) (s : St) (o : Outcome) : Prop :=
  ∀ v, o = .accept v → s.recovered = false → Final s.hist

theorem reduceOnError_h (hE : ErrColOk T) (la : Option Token) (Q : List Nat → List Char → Nat → Prop) (pending : List Nat) :
    ∀ (fuel : Nat) (s : St), HInv Q s pending →
      match reduceOnError T env la s fuel with
      | (s', some o) => ∀ v, o ≠ .accept v
      | (s', none) => HInv Q s' pending := by
  intro fuel
  induction fuel with
  | zero => intro s _; unfold reduceOnError; intro v h; cases h
  | succ f ih =>
    intro s h
    unfold reduceOnError
    cases hr : asReduce (errorAction T (topState s)) with
    | none => exact h
    | some r =>
      dsimp only
      have hk := reduce_keeps T env s r (la.map (·.start))
      have hc := reduce_cases T env s r (la.map (·.start))
      revert hk hc
      cases reduce T env s r (la.map (·.start)) with
      | mk s' oo =>
        cases oo with
        | some o =>
          intro _ hc v hv
          rcases hc with hstop | ⟨v', prod, _, hp, hacc, _⟩
          · rw [hv] at hstop; exact hstop
          · have := hE _ _ _ hr hp
            rw [this] at hacc; cases hacc
        | none =>
          intro hk _
          dsimp only at hk ⊢
          refine ih s' ?_
          intro hrec
          have := h (by rw [← hk.2.1]; exact hrec)
          rw [hk.1, hk.2.2.1, hk.2.2.2]
          exact this

theorem nextToken_keeps (s : St) :
    (nextToken T s).1.hist = s.hist ∧ (nextToken T s).1.recovered = s.recovered ∧ (nextToken T s).1.states = s.states := by
  unfold nextToken
  split
  · exact ⟨rfl, rfl, rfl⟩
  · exact ⟨rfl, rfl, rfl⟩
  · split <;> exact ⟨rfl, rfl, rfl⟩

theorem findState_h (error : ParseErr) (n : Nat) :
    ∀ (fuel : Nat) (s : St) (la : Option Token) (col : Option Nat) (dropped : List Token),
      match findState T error n s la col dropped fuel with
      | (_, .inl (.done o)) => ∀ v, o ≠ .accept v
      | (_, .inl _) => False
      | (s', .inr _) => s'.recovered = s.recovered := by
  intro fuel
  induction fuel with
  | zero => intro s la col dropped; unfold findState; intro v h; cases h
  | succ f ih =>
    intro s la col dropped
    unfold findState
    cases errorCandidate T n s col with
    | some top => rfl
    | none =>
      dsimp only
      cases la with
      | none => intro v h; cases h
      | some l =>
        dsimp only
        have hk := nextToken_keeps T s
        revert hk
        cases hnt : nextToken T s with
        | mk s' r =>
          cases r with
          | found t c =>
            intro hk
            dsimp only
            have := ih s' (some t) (some c) (dropped ++ [l])
            revert this
            cases findState T error n s' (some t) (some c) (dropped ++ [l]) f with
            | mk s'' x =>
              cases x with
              | inl nt => cases nt <;> exact id
              | inr y => intro hh; dsimp only at hk ⊢; rw [hh, hk.2.1]
          | eof =>
            intro hk
            dsimp only
            have := ih s' none none (dropped ++ [l])
            revert this
            cases findState T error n s' none none (dropped ++ [l]) f with
            | mk s'' x =>
              cases x with
              | inl nt => cases nt <;> exact id
              | inr y => intro hh; dsimp only at hk ⊢; rw [hh, hk.2.1]
          | done o =>
            intro _
            dsimp only
            -- the lexer only ends a run with a parse error
            unfold nextToken at hnt
            intro v hv
            subst hv
            split at hnt
            · cases hnt
            · cases hnt
            · split at hnt <;> cases hnt

theorem recoverPush_h (error : ParseErr) (n : Nat) (s : St) (top : Nat) (la : Option Token) (col : Option Nat)
    (dropped : List Token) :
    match recoverPush T error n s top la col dropped with
    | (s', .found _ _) => s'.recovered = true
    | (s', .eof) => s'.recovered = true
    | (_, .done o) => ∀ v, o ≠ .accept v := by
  unfold recoverPush
  dsimp only
  cases asShift (errorAction T ((s.states.drop (n - 1 - top)).headD 0)) with
  | none => intro v h; cases h
  | some e =>
    dsimp only
    cases la <;> cases col <;> first | rfl | (intro v h; cases h)

/-- after `error_recovery` the flag is set, or the run ended without accepting -/
theorem errorRecovery_h (hE : ErrColOk T) (Q : List Nat → List Char → Nat → Prop) (pending : List Nat) (s : St)
    (la : Option Token) (col : Option Nat) (fuel : Nat) (h : HInv Q s pending) :
    match errorRecovery T env s la col fuel with
    | (s', .found _ _) => s'.recovered = true
    | (s', .eof) => s'.recovered = true
    | (_, .done o) => ∀ v, o ≠ .accept v := by
  unfold errorRecovery
  dsimp only
  have h1 := reduceOnError_h T env hE la Q pending fuel s h
  revert h1
  cases reduceOnError T env la s fuel with
  | mk s1 oo =>
    cases oo with
    | some o => exact fun hh => hh
    | none =>
      intro _
      dsimp only
      have h2 := findState_h T (unrecognized T s la) s1.states.length fuel s1 la col []
      revert h2
      cases findState T (unrecognized T s la) s1.states.length s1 la col [] fuel with
      | mk s2 r =>
        cases r with
        | inl nt =>
          cases nt with
          | done o => exact fun hh => hh
          | found t c => exact fun hh => hh.elim
          | eof => exact fun hh => hh.elim
        | inr x =>
          obtain ⟨top, la', col', dropped'⟩ := x
          intro _
          exact recoverPush_h T _ _ s2 top la' col' dropped'

/-! ### once error recovery has run, the flag stays set -/

theorem reduceOnError_rec (la : Option Token) : ∀ (fuel : Nat) (s : St),
    (reduceOnError T env la s fuel).1.recovered = s.recovered := by
  intro fuel
  induction fuel with
  | zero => intro s; unfold reduceOnError; rfl
  | succ f ih =>
    intro s
    unfold reduceOnError
    cases asReduce (errorAction T (topState s)) with
    | none => rfl
    | some r =>
      dsimp only
      have hk := reduce_keeps T env s r (la.map (·.start))
      revert hk
      cases reduce T env s r (la.map (·.start)) with
      | mk s' oo =>
        cases oo with
        | some o => intro hk; exact hk.2.1
        | none => intro hk; dsimp only at hk ⊢; rw [ih s', hk.2.1]

theorem findState_rec (error : ParseErr) (n : Nat) : ∀ (fuel : Nat) (s : St) (la : Option Token) (col : Option Nat)
    (dropped : List Token), (findState T error n s la col dropped fuel).1.recovered = s.recovered := by
  intro fuel
  induction fuel with
  | zero => intro s la col dropped; unfold findState; rfl
  | succ f ih =>
    intro s la col dropped
    unfold findState
    cases errorCandidate T n s col with
    | some top => rfl
    | none =>
      dsimp only
      cases la with
      | none => rfl
      | some l =>
        dsimp only
        have hk := nextToken_keeps T s
        revert hk
        cases nextToken T s with
        | mk s' r =>
          cases r with
          | found t c => intro hk; dsimp only at hk ⊢; rw [ih, hk.2.1]
          | eof => intro hk; dsimp only at hk ⊢; rw [ih, hk.2.1]
          | done o => intro hk; exact hk.2.1

theorem recoverPush_rec (error : ParseErr) (n : Nat) (s : St) (top : Nat) (la : Option Token) (col : Option Nat)
    (dropped : List Token) (h : s.recovered = true) :
    (recoverPush T error n s top la col dropped).1.recovered = true := by
  unfold recoverPush
  dsimp only
  cases asShift (errorAction T ((s.states.drop (n - 1 - top)).headD 0)) with
  | none => exact h
  | some e =>
    dsimp only
    cases la <;> cases col <;> rfl

theorem errorRecovery_rec (s : St) (la : Option Token) (col : Option Nat) (fuel : Nat) (h : s.recovered = true) :
    (errorRecovery T env s la col fuel).1.recovered = true := by
  unfold errorRecovery
  dsimp only
  have h1 := reduceOnError_rec T env la fuel s
  revert h1
  cases reduceOnError T env la s fuel with
  | mk s1 oo =>
    cases oo with
    | some o => intro h1; dsimp only at h1 ⊢; rw [h1]; exact h
    | none =>
      intro h1
      dsimp only at h1 ⊢
      have h2 := findState_rec T (unrecognized T s la) s1.states.length fuel s1 la col []
      revert h2
      cases findState T (unrecognized T s la) s1.states.length s1 la col [] fuel with
      | mk s2 r =>
        cases r with
        | inl nt => intro h2; dsimp only at h2 ⊢; rw [h2, h1]; exact h
        | inr x =>
          obtain ⟨top, la', col', dropped'⟩ := x
          intro h2
          dsimp only at h2 ⊢
          exact recoverPush_rec T _ _ s2 top la' col' dropped' (by rw [h2, h1]; exact h)

theorem parseEof_rec : ∀ (fuel : Nat) (s : St), s.recovered = true → (parseEof T env s fuel).1.recovered = true := by
  intro fuel
  induction fuel with
  | zero => intro s h; unfold parseEof; exact h
  | succ f ih =>
    intro s h
    unfold parseEof
    cases asReduce (eofActionAt T (topState s)) with
    | some r =>
      dsimp only
      have hk := reduce_keeps T env s r none
      revert hk
      cases reduce T env s r none with
      | mk s' oo =>
        cases oo with
        | some o => intro hk; dsimp only at hk ⊢; rw [hk.2.1]; exact h
        | none => intro hk; dsimp only at hk ⊢; exact ih s' (by rw [hk.2.1]; exact h)
    | none =>
      dsimp only
      have h1 := errorRecovery_rec T env s none none f h
      revert h1
      cases errorRecovery T env s none none f with
      | mk s' r =>
        cases r with
        | found t c => exact id
        | done o => exact id
        | eof => intro h1; exact ih s' h1

theorem parseEof_h (hE : ErrColOk T) (Final : List Nat → Prop) :
    ∀ (fuel : Nat) (s : St), (s.recovered = false → Final s.hist) →
      HEnd Final (parseEof T env s fuel).1 (parseEof T env s fuel).2 := by
  intro fuel
  induction fuel with
  | zero => intro s _; unfold parseEof; intro v h; cases h
  | succ f ih =>
    intro s h
    unfold parseEof
    cases hr : asReduce (eofActionAt T (topState s)) with
    | some r =>
      dsimp only
      have hk := reduce_keeps T env s r none
      revert hk
      cases reduce T env s r none with
      | mk s' oo =>
        cases oo with
        | some o =>
          intro hk
          dsimp only at hk ⊢
          intro v _ hrec
          rw [hk.1]
          exact h (by rw [← hk.2.1]; exact hrec)
        | none =>
          intro hk
          dsimp only at hk ⊢
          refine ih s' ?_
          intro hrec
          rw [hk.1]
          exact h (by rw [← hk.2.1]; exact hrec)
    | none =>
      dsimp only
      have h1 := errorRecovery_h T env hE (fun w _ _ => Final w) [] s none none f (by intro hrec; simpa using h hrec)
      revert h1
      cases hres : errorRecovery T env s none none f with
      | mk s' r =>
        cases r with
        | found t c => intro _; dsimp only; intro v h; cases h
        | done o => intro hh; dsimp only; intro v hv; exact absurd hv (hh v)
        | eof =>
          intro hrec
          dsimp only
          intro v hv hrec'
          exfalso
          have := parseEof_rec T env f s' hrec
          rw [this] at hrec'
          cases hrec'

theorem parseInner_rec : ∀ (fuel : Nat) (s : St) (la : Token) (col : Nat), s.recovered = true →
    (parseInner T env s la col fuel).1.recovered = true := by
  intro fuel
  induction fuel with
  | zero => intro s la col h; unfold parseInner; exact h
  | succ f ih =>
    intro s la col h
    unfold parseInner
    dsimp only
    cases asShift (actionAt T (topState s) col) with
    | some target => exact h
    | none =>
      dsimp only
      cases asReduce (actionAt T (topState s) col) with
      | some r =>
        dsimp only
        have hk := reduce_keeps T env s r (some la.start)
        revert hk
        cases reduce T env s r (some la.start) with
        | mk s' oo =>
          cases oo with
          | some o => intro hk; cases o <;> (dsimp only at hk ⊢; rw [hk.2.1]; exact h)
          | none => intro hk; dsimp only at hk ⊢; exact ih s' la col (by rw [hk.2.1]; exact h)
      | none =>
        dsimp only
        have h1 := errorRecovery_rec T env s (some la) (some col) f h
        revert h1
        cases errorRecovery T env s (some la) (some col) f with
        | mk s' r =>
          cases r with
          | found l c => intro h1; exact ih s' l c h1
          | eof => intro h1; exact parseEof_rec T env f s' h1
          | done o => exact id

theorem parseInner_h (hE : ErrColOk T) (Q : List Nat → List Char → Nat → Prop) (Final : List Nat → Prop) :
    ∀ (fuel : Nat) (s : St) (la : Token) (col : Nat), HInv Q s [col] →
      match parseInner T env s la col fuel with
      | (s', .inl ()) => HInv Q s' []
      | (s', .inr o) => HEnd Final s' o := by
  intro fuel
  induction fuel with
  | zero => intro s la col _; unfold parseInner; intro v h; cases h
  | succ f ih =>
    intro s la col h
    unfold parseInner
    dsimp only
    cases asShift (actionAt T (topState s) col) with
    | some target =>
      dsimp only
      intro hrec
      have := h hrec
      simpa using this
    | none =>
      dsimp only
      cases asReduce (actionAt T (topState s) col) with
      | some r =>
        dsimp only
        have hk := reduce_keeps T env s r (some la.start)
        revert hk
        cases reduce T env s r (some la.start) with
        | mk s' oo =>
          cases oo with
          | some o =>
            intro _
            cases o <;> (dsimp only; intro v hv; cases hv)
          | none =>
            intro hk
            dsimp only at hk ⊢
            refine ih s' la col ?_
            intro hrec
            have := h (by rw [← hk.2.1]; exact hrec)
            rw [hk.1, hk.2.2.1, hk.2.2.2]
            exact this
      | none =>
        dsimp only
        have h1 := errorRecovery_h T env hE Q [col] s (some la) (some col) f h
        revert h1
        cases errorRecovery T env s (some la) (some col) f with
        | mk s' r =>
          cases r with
          | done o => intro hh; dsimp only; intro v hv; exact absurd hv (hh v)
          | eof =>
            intro hrec
            dsimp only
            intro v _ hrec'
            have := parseEof_rec T env f s' hrec
            rw [this] at hrec'
            cases hrec'
          | found l c =>
            intro hrec
            dsimp only
            have hm := parseInner_rec T env f s' l c hrec
            revert hm
            cases parseInner T env s' l c f with
            | mk s'' x =>
              cases x with
              | inl u =>
                cases u
                intro hm hrec'
                dsimp only at hm
                rw [hm] at hrec'
                cases hrec'
              | inr o =>
                intro hm v _ hrec'
                dsimp only at hm
                rw [hm] at hrec'
                cases hrec'

theorem parseLoop_h (hE : ErrColOk T) (Q : List Nat → List Char → Nat → Prop) (Final : List Nat → Prop)
    (hstep : ∀ w i p t r c, Q w i p → Lexer.next T.lex (i.length + 1) i p = .token t r → T.tokToCol.lookup t.index = some c →
      Q (w ++ [c]) r t.stop)
    (hfin : ∀ w i p, Q w i p → Lexer.next T.lex (i.length + 1) i p = .eof → Final w) :
    ∀ (fuel : Nat) (s : St), HInv Q s [] → HEnd Final (parseLoop T env s fuel).1 (parseLoop T env s fuel).2 := by
  intro fuel
  induction fuel with
  | zero => intro s _; unfold parseLoop; intro v h; cases h
  | succ f ih =>
    intro s h
    unfold parseLoop nextToken
    cases hn : Lexer.next T.lex (s.input.length + 1) s.input s.pos with
    | eof =>
      dsimp only
      refine parseEof_h T env hE Final f s ?_
      intro hrec
      have := h hrec
      simp only [List.append_nil] at this
      exact hfin _ _ _ this hn
    | invalid l => dsimp only; intro v hv; cases hv
    | token t r =>
      dsimp only
      cases hc : T.tokToCol.lookup t.index with
      | none => dsimp only; intro v hv; cases hv
      | some c =>
        dsimp only
        have hinv : HInv Q { s with input := r, pos := t.stop, last := t.stop } [c] := by
          intro hrec
          have := h hrec
          simp only [List.append_nil] at this
          exact hstep _ _ _ t r c this hn hc
        have hi := parseInner_h T env hE Q Final f _ t c hinv
        revert hi
        cases parseInner T env { s with input := r, pos := t.stop, last := t.stop } t c f with
        | mk s' x =>
          cases x with
          | inr o => exact id
          | inl u => cases u; intro hi; exact ih s' hi

/-- **an accepting run without error recovery has shifted exactly the tokens of the text** -/
theorem hist_is_text (hE : ErrColOk T) (text : List Char) (w0 : List Nat) (fuel : Nat) (v : Val)
    (hl : LexCols T text 0 w0)
    (ha : (parseLoop T env { input := text } fuel).2 = .accept v)
    (hr : (parseLoop T env { input := text } fuel).1.recovered = false) :
    (parseLoop T env { input := text } fuel).1.hist = w0 := by
  refine parseLoop_h T env hE (fun w i p => ∃ rest, LexCols T i p rest ∧ w0 = w ++ rest) (fun w => w = w0) ?_ ?_ fuel
    { input := text } (fun _ => ⟨w0, hl, by simp⟩) v ha hr
  · rintro w i p t r c ⟨rest, h1, h2⟩ hn hc
    cases h1 with
    | eof hn' => rw [hn] at hn'; cases hn'
    | tok hn' hc' hr' =>
      rw [hn] at hn'
      cases hn'
      rw [hc] at hc'
      cases hc'
      exact ⟨_, hr', by rw [h2]; simp⟩
  · rintro w i p ⟨rest, h1, h2⟩ hn
    have := lexCols_fun T h1 (LexCols.eof hn)
    subst this
    simpa using h2.symm

/-- the tokens from `(i, p)` up to `(i', p')` have these columns -/
inductive LexPre : List Char → Nat → List Nat → List Char → Nat → Prop
  | refl {i : List Char} {p : Nat} : LexPre i p [] i p
  | tok {i : List Char} {p : Nat} {t : Token} {r : List Char} {c : Nat} {w : List Nat} {i' : List Char} {p' : Nat} :
      Lexer.next T.lex (i.length + 1) i p = .token t r → T.tokToCol.lookup t.index = some c →
      LexPre r t.stop w i' p' → LexPre i p (c :: w) i' p'

theorem LexPre.snoc {i : List Char} {p : Nat} {w : List Nat} {i' : List Char} {p' : Nat} (h : LexPre T i p w i' p')
    {t : Token} {r : List Char} {c : Nat} (hn : Lexer.next T.lex (i'.length + 1) i' p' = .token t r)
    (hc : T.tokToCol.lookup t.index = some c) : LexPre T i p (w ++ [c]) r t.stop := by
  induction h with
  | refl => exact LexPre.tok hn hc LexPre.refl
  | tok hn' hc' _ ih => exact LexPre.tok hn' hc' (ih hn)

theorem LexPre.finish {i : List Char} {p : Nat} {w : List Nat} {i' : List Char} {p' : Nat} (h : LexPre T i p w i' p')
    (hn : Lexer.next T.lex (i'.length + 1) i' p' = .eof) : LexCols T i p w := by
  induction h with
  | refl => exact LexCols.eof hn
  | tok hn' hc' _ ih => exact LexCols.tok hn' hc' (ih hn)

/-- **an accepting run without error recovery has lexed the whole text**, to the tokens it shifted -/
theorem accepted_lexcols (hE : ErrColOk T) (text : List Char) (fuel : Nat) (v : Val)
    (ha : (parseLoop T env { input := text } fuel).2 = .accept v)
    (hr : (parseLoop T env { input := text } fuel).1.recovered = false) :
    LexCols T text 0 (parseLoop T env { input := text } fuel).1.hist :=
  parseLoop_h T env hE (fun w i p => LexPre T text 0 w i p) (fun w => LexCols T text 0 w)
    (fun _ _ _ _ _ _ h hn hc => h.snoc T hn hc) (fun _ _ _ h hn => h.finish T hn) fuel
    { input := text } (fun _ => LexPre.refl) v ha hr

end Aidl.Props.LrHist
