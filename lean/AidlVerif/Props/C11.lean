import AidlVerif.Props.C13
import AidlVerif.Lemmas.Keys

/-!
# C11 — validation output is deterministic and ordered by position (about the model)

Hash-table iteration order is the parameter `HashOrder` of the model; the theorems quantify over
ALL iteration orders (two independent ones for the two runs that are compared) and over all
insertion orders (the two file lists are permutations of each other).
-/

namespace Aidl.Props.C11
open Aidl Aidl.Spec

def keyD (d : Diag) : Nat := d.range.start.off

/-- distinct import statements and distinct forward declarations start at distinct offsets
    (guaranteed for parser output; the harness checks it on every tree) -/
def WFRanges (ast : AidlFile) : Prop :=
  (ast.imports.map (fun i => i.sym.start.off)).Nodup
  ∧ (ast.declaredParcelables.flatMap (fun d => [d.sym.start.off, d.full.start.off])).Nodup

instance (ast : AidlFile) : Decidable (WFRanges ast) := by unfold WFRanges; infer_instance

/-! ### generic list facts -/

theorem length_filter_le_one {α} (key : α → Nat) (X : List α) (hn : (X.map key).Nodup) (k : Nat) :
    (X.filter (fun a => key a = k)).length ≤ 1 := by
  induction X with
  | nil => simp
  | cons x xs ih =>
    rw [List.map_cons, List.nodup_cons] at hn
    by_cases hx : key x = k
    · have : xs.filter (fun a => key a = k) = [] := by
        apply List.filter_eq_nil_iff.mpr
        intro y hy
        simp only [decide_eq_true_eq]
        intro hyk
        apply hn.1
        rw [hx, ← hyk]
        exact List.mem_map.mpr ⟨y, hy, rfl⟩
      simp [List.filter_cons, hx, this]
    · simp only [List.filter_cons, hx, decide_false, Bool.false_eq_true, if_false]
      exact ih hn.2

theorem filter_eq_of_perm_nodup {α} (key : α → Nat) {X₁ X₂ : List α} (hp : X₁.Perm X₂)
    (hn : (X₁.map key).Nodup) (k : Nat) :
    X₁.filter (fun a => key a = k) = X₂.filter (fun a => key a = k) := by
  have hpf : (X₁.filter (fun a => key a = k)).Perm (X₂.filter (fun a => key a = k)) := hp.filter _
  have hlen := length_filter_le_one key X₁ hn k
  generalize X₁.filter (fun a => key a = k) = L at hpf hlen
  cases L with
  | nil => exact (List.perm_nil.mp hpf.symm).symm
  | cons a L' =>
    cases L' with
    | nil => exact List.singleton_perm.mp hpf
    | cons b L'' => simp at hlen

theorem sublist_flatMap {α β} {l₁ l₂ : List α} (h : l₁.Sublist l₂) (f : α → List β) :
    (l₁.flatMap f).Sublist (l₂.flatMap f) := by
  induction h with
  | slnil => simp
  | cons a _ ih => simp only [List.flatMap_cons]; exact ih.trans (List.sublist_append_right _ _)
  | cons_cons a _ ih => simp only [List.flatMap_cons]; exact List.Sublist.append (List.Sublist.refl _) ih

theorem flatMap_map_sublist {α β} (key : β → Nat) (u : α → List β) (kf : α → List Nat) (l : List α)
    (h : ∀ e, ((u e).map key).Sublist (kf e)) : ((l.flatMap u).map key).Sublist (l.flatMap kf) := by
  induction l with
  | nil => simp
  | cons x xs ih =>
    simp only [List.flatMap_cons, List.map_append]
    exact List.Sublist.append (h x) ih

theorem firstsAux_sublist {α} (key : α → String) (seen : List String) (l : List α) :
    (firstsAux key seen l).Sublist l := by
  induction l generalizing seen with
  | nil => simp [firstsAux]
  | cons x xs ih =>
    simp only [firstsAux]
    split
    · exact (ih seen).trans (List.sublist_cons_self _ _)
    · exact List.Sublist.cons_cons _ (ih _)

/-! ### the two hash-ordered loops -/

theorem importUsage_keys (resolved : List String) (defined : Defined) (e : String × Import) :
    ((importUsageDiag resolved defined e).map keyD).Sublist [e.2.sym.start.off] := by
  unfold importUsageDiag
  split
  · simp [keyD, mkDiag]
  · split <;> simp [keyD, mkDiag]

theorem declUsage_keys (resolved : List String) (e : String × Import) :
    ((declaredUsageDiag resolved e).map keyD).Sublist [e.2.sym.start.off, e.2.full.start.off] := by
  unfold declaredUsageDiag
  split <;> simp [keyD, mkDiag]

/-- the diagnostics of `check_imports` under two hash orders agree on every start offset -/
theorem checkImports_ho (ho₁ ho₂ : HashOrder) (imports : List Import) (resolved : List String) (defined : Defined)
    (hnd : (imports.map (fun i => i.sym.start.off)).Nodup) (k : Nat) :
    (checkImports ho₁ imports resolved defined).1 = (checkImports ho₂ imports resolved defined).1
    ∧ (checkImports ho₁ imports resolved defined).2.filter (fun d => keyD d = k)
      = (checkImports ho₂ imports resolved defined).2.filter (fun d => keyD d = k) := by
  have hm := (Props.C06.checkImports_spec ho₁ imports resolved defined).1
  unfold checkImports at hm ⊢
  simp only at hm ⊢
  refine ⟨by first | rfl | trivial, ?_⟩
  simp only [List.filter_append]
  congr 1
  apply filter_eq_of_perm_nodup keyD
  · exact ((ho₁.perm _).trans (ho₂.perm _).symm).flatMap_right _
  · -- keys of the usage diagnostics are pairwise distinct
    have hs : (((ho₁.ord (importsFold imports).1).flatMap (importUsageDiag resolved defined)).map keyD).Sublist
        ((ho₁.ord (importsFold imports).1).flatMap (fun e => [e.2.sym.start.off])) :=
      flatMap_map_sublist keyD _ _ _ (importUsage_keys resolved defined)
    apply List.Nodup.sublist hs
    have hp : ((ho₁.ord (importsFold imports).1).flatMap (fun e => [e.2.sym.start.off])).Perm
        ((importsFold imports).1.flatMap (fun e => [e.2.sym.start.off])) := (ho₁.perm _).flatMap_right _
    apply (hp.nodup_iff).mpr
    rw [hm]
    unfold Props.C06.keyed
    simp only [List.flatMap_map]
    have : (firsts Import.qname imports).flatMap (fun i => [i.sym.start.off])
        = (firsts Import.qname imports).map (fun i => i.sym.start.off) := by
      induction (firsts Import.qname imports) <;> simp_all
    rw [this]
    exact List.Nodup.sublist ((firstsAux_sublist Import.qname [] imports).map _) hnd

theorem checkDecls_ho (ho₁ ho₂ : HashOrder) (decls : List Import) (importMap : List (String × Import))
    (resolved : List String)
    (hnd : (decls.flatMap (fun d => [d.sym.start.off, d.full.start.off])).Nodup) (k : Nat)
    (imports : List Import) (hmap : importMap = Props.C06.keyed (firsts Import.qname imports)) :
    (checkDeclaredParcelables ho₁ decls importMap resolved).filter (fun d => keyD d = k)
      = (checkDeclaredParcelables ho₂ decls importMap resolved).filter (fun d => keyD d = k) := by
  subst hmap
  obtain ⟨ds, h1, _, _⟩ := Props.C06.decls_fold imports [] decls []
  have h0 : Props.C06.keyed (firsts Import.qname (Spec.C06.freeDecls imports [])) = [] := rfl
  rw [h0] at h1
  simp only [List.nil_append] at h1
  unfold checkDeclaredParcelables
  rw [Props.C06.declaredFold_eq, h1]
  simp only [List.filter_append]
  congr 1
  apply filter_eq_of_perm_nodup keyD
  · exact ((ho₁.perm _).trans (ho₂.perm _).symm).flatMap_right _
  · have hs := flatMap_map_sublist keyD (declaredUsageDiag resolved)
      (fun e => [e.2.sym.start.off, e.2.full.start.off])
      (ho₁.ord (Props.C06.keyed (firsts Import.qname (Spec.C06.freeDecls imports decls)))) (declUsage_keys resolved)
    apply List.Nodup.sublist hs
    have hp := (ho₁.perm (Props.C06.keyed (firsts Import.qname (Spec.C06.freeDecls imports decls)))).flatMap_right
      (fun e => [e.2.sym.start.off, e.2.full.start.off])
    apply (hp.nodup_iff).mpr
    unfold Props.C06.keyed
    simp only [List.flatMap_map]
    refine List.Nodup.sublist (sublist_flatMap ?_ _) hnd
    exact (firstsAux_sublist Import.qname [] _).trans List.filter_sublist


/-! ### one file under two hash orders -/

/-- **The result for a file does not depend on the iteration order of the hash tables.** -/
theorem validateFile_ho (ho₁ ho₂ : HashOrder) (defined : Defined) (fr : FileResult)
    (wf : ∀ a, fr.ast = some a → WFRanges a) :
    validateFile ho₁ defined fr = validateFile ho₂ defined fr := by
  unfold validateFile
  cases hast : fr.ast with
  | none => rfl
  | some ast =>
    simp only
    obtain ⟨hnd1, hnd2⟩ := wf ast hast
    unfold validateGroups
    simp only
    have himp := Props.C05.resolveTypes_eq ast (ast.imports.map Import.qname)
      (ast.declaredParcelables.map Import.qname) defined
    generalize hr1 : resolveTypes ast (ast.imports.map Import.qname)
      (ast.declaredParcelables.map Import.qname) defined = r1 at himp
    have hi : r1.1.imports = ast.imports := by rw [himp]; exact (Props.C06.mapTypes_imports _ _).1
    have hd : r1.1.declaredParcelables = ast.declaredParcelables := by
      rw [himp]; exact (Props.C06.mapTypes_imports _ _).2
    cases hc : checkContainers r1.1 with
    | error e => rfl
    | ok d4 =>
      simp only
      cases hm : checkMethods (setUpOneway r1.1).1 with
      | error e => rfl
      | ok d6 =>
        simp only
        congr 2
        unfold sortDiags Groups.all
        apply stableSortBy_congr
        intro k
        simp only [List.filter_append]
        have h1 := checkImports_ho ho₁ ho₂ r1.1.imports r1.2.1 defined (by rw [hi]; exact hnd1) k
        have hmap := (Props.C06.checkImports_spec ho₁ r1.1.imports r1.2.1 defined).1
        have h2 := checkDecls_ho ho₁ ho₂ r1.1.declaredParcelables
          (checkImports ho₁ r1.1.imports r1.2.1 defined).1 r1.2.1 (by rw [hd]; exact hnd2) k r1.1.imports hmap
        rw [← h1.1]
        have e1 : ∀ l : List Diag, l.filter (fun x => decide ((fun d => d.range.start.off) x = k))
            = l.filter (fun d => decide (keyD d = k)) := fun _ => rfl
        simp only [e1, h1.2, h2]

/-- the diagnostics of every validated file are in ascending order of start position -/
theorem diags_sorted (ho : HashOrder) (defined : Defined) (fr out : FileResult) (a : AidlFile)
    (hast : fr.ast = some a) (h : validateFile ho defined fr = .ok out) :
    out.diags.Pairwise (fun d₁ d₂ => d₁.range.start.off ≤ d₂.range.start.off) := by
  unfold validateFile at h
  simp only [hast] at h
  cases hg : validateGroups ho defined fr.diags a with
  | error e => simp [hg] at h
  | ok g =>
    simp only [hg] at h
    cases h
    exact stableSortBy_sorted _ _


/-! ### the whole project: two runs, two hash orders, two insertion orders -/

theorem filterMap_congr' {α β} (l : List α) (f g : α → Option β) (h : ∀ x ∈ l, f x = g x) :
    l.filterMap f = l.filterMap g := by
  induction l with
  | nil => rfl
  | cons x xs ih =>
    simp only [List.filterMap_cons]
    rw [h x (by simp), ih (fun y hy => h y (List.mem_cons_of_mem _ hy))]

theorem mapExcept_ok {α β} (F : α → Except String β) (l : List α) (r : List β) (h : mapExcept F l = .ok r) :
    r = l.filterMap (fun x => (F x).toOption) := by
  induction l generalizing r with
  | nil => simp [mapExcept] at h; simp [h]
  | cons x xs ih =>
    simp only [mapExcept] at h
    cases hx : F x with
    | error e => simp [hx] at h
    | ok y =>
      simp only [hx] at h
      cases hxs : mapExcept F xs with
      | error e => simp [hxs] at h
      | ok ys =>
        simp only [hxs] at h
        cases h
        simp [List.filterMap_cons, hx, Except.toOption, ih ys hxs]

theorem mapExcept_isOk {α β} (F : α → Except String β) (l : List α) :
    (∃ r, mapExcept F l = .ok r) ↔ ∀ x ∈ l, ∃ y, F x = .ok y := by
  induction l with
  | nil => simp [mapExcept]
  | cons x xs ih =>
    simp only [mapExcept, List.mem_cons, forall_eq_or_imp]
    cases hx : F x with
    | error e => simp
    | ok y =>
      simp only [Except.ok.injEq, exists_eq', true_and]
      rw [← ih]
      cases hxs : mapExcept F xs <;> simp

/-- **C11 for the model.** Two validations of the same set of (id, result) pairs — inserted in any
    two orders, iterated in any two hash orders — return the same results (as a map: the result
    lists are permutations of each other, every file's tree and diagnostic LIST being equal). -/
theorem validate_order_independent (ho₁ ho₂ : HashOrder) (files₁ files₂ : List FileResult)
    (hp : files₁.Perm files₂)
    (wf : ∀ fr ∈ files₁, ∀ a, fr.ast = some a → WFRanges a)
    (r₁ r₂ : List FileResult) (h₁ : validate ho₁ files₁ = .ok r₁) (h₂ : validate ho₂ files₂ = .ok r₂) :
    r₁.Perm r₂ := by
  unfold validate at h₁ h₂
  simp only at h₁ h₂
  have hperm : (ho₁.ord files₁).Perm (ho₂.ord files₂) := ((ho₁.perm _).trans hp).trans (ho₂.perm _).symm
  have hD := collectItemKeys_perm hperm
  rw [mapExcept_ok _ _ _ h₁, mapExcept_ok _ _ _ h₂]
  have hfun : ∀ fr ∈ ho₁.ord files₁,
      (validateFile ho₁ (collectItemKeys (ho₁.ord files₁)) fr).toOption
        = (validateFile ho₂ (collectItemKeys (ho₂.ord files₂)) fr).toOption := by
    intro fr hfr
    have hmem : fr ∈ files₁ := (ho₁.perm _).mem_iff.mp hfr
    rw [validateFile_ho ho₁ ho₂ _ fr (wf fr hmem),
      Props.C13.file_depends_on_import_kinds ho₂ _ _ fr (fun k _ => hD k)]
  rw [filterMap_congr' _ _ _ hfun]
  exact hperm.filterMap _

/-- … and one of them panics exactly when the other does -/
theorem validate_panics_agree (ho₁ ho₂ : HashOrder) (files₁ files₂ : List FileResult)
    (hp : files₁.Perm files₂) (wf : ∀ fr ∈ files₁, ∀ a, fr.ast = some a → WFRanges a) :
    (∃ r, validate ho₁ files₁ = .ok r) ↔ (∃ r, validate ho₂ files₂ = .ok r) := by
  unfold validate
  simp only
  have hperm : (ho₁.ord files₁).Perm (ho₂.ord files₂) := ((ho₁.perm _).trans hp).trans (ho₂.perm _).symm
  have hD := collectItemKeys_perm hperm
  rw [mapExcept_isOk, mapExcept_isOk]
  constructor
  · intro h fr hfr
    have hfr1 : fr ∈ ho₁.ord files₁ := hperm.mem_iff.mpr hfr
    have hmem : fr ∈ files₁ := (ho₁.perm _).mem_iff.mp hfr1
    obtain ⟨y, hy⟩ := h fr hfr1
    rw [validateFile_ho ho₁ ho₂ _ fr (wf fr hmem),
      Props.C13.file_depends_on_import_kinds ho₂ _ _ fr (fun k _ => hD k)] at hy
    exact ⟨y, hy⟩
  · intro h fr hfr1
    have hmem : fr ∈ files₁ := (ho₁.perm _).mem_iff.mp hfr1
    obtain ⟨y, hy⟩ := h fr (hperm.mem_iff.mp hfr1)
    rw [validateFile_ho ho₁ ho₂ _ fr (wf fr hmem),
      Props.C13.file_depends_on_import_kinds ho₂ _ _ fr (fun k _ => hD k)]
    exact ⟨y, hy⟩

/-- repeating the call on the same parser gives the same answer whatever the hash seeds -/
theorem validate_repeatable (ho₁ ho₂ : HashOrder) (files : List FileResult)
    (wf : ∀ fr ∈ files, ∀ a, fr.ast = some a → WFRanges a)
    (r₁ r₂ : List FileResult) (h₁ : validate ho₁ files = .ok r₁) (h₂ : validate ho₂ files = .ok r₂) :
    r₁.Perm r₂ :=
  validate_order_independent ho₁ ho₂ files files (List.Perm.refl _) wf r₁ r₂ h₁ h₂

end Aidl.Props.C11
