import AidlVerif.Props.JavadocTotal
import AidlVerif.Props.C18

/-!
# C18 — which comment `get_javadoc` finds, for every text

`findContent_doc`: when the text before a construct ends with `/**` body `*/` followed only by
whitespace and ordinary comments, the body is returned verbatim (any Unicode content; the body
contains no `/` and does not begin with `*`; ordinary block comments contain no `/` or `*`, line
comments no `/`) — whatever precedes the doc comment, in particular another doc comment.

`findContent_none_token`, `findContent_none_start`: when, going backwards over whitespace and
ordinary comments, the scan meets a character of another token on a line without `/`, or the start of
the text, there is no documentation.
-/

namespace Aidl.Props.JavadocAttach
open Aidl.Javadoc Aidl.Props.JavadocTotal

def scanAll (s : Scan) (cs : List Char) : Scan := cs.foldl (scanStep Char.utf8Size) s

theorem scanAll_append (s : Scan) (a b : List Char) : scanAll s (a ++ b) = scanAll (scanAll s a) b := by
  unfold scanAll; rw [List.foldl_append]
theorem scanAll_cons (s : Scan) (c : Char) (cs : List Char) : scanAll s (c :: cs) = scanAll (scanStep Char.utf8Size s c) cs := rfl
theorem scanAll_nil (s : Scan) : scanAll s [] = s := rfl

def IsWs (c : Char) : Prop := c = ' ' ∨ c = '\n' ∨ c = '\r' ∨ c = '\t'

instance (c : Char) : Decidable (IsWs c) := by unfold IsWs; infer_instance

/-- ordinary material between a doc comment and its construct -/
inductive Piece
  | ws (c : Char)
  | block (c : List Char)
  | line (t : List Char)

def Piece.ok : Piece → Prop
  | .ws c => IsWs c
  | .block c => ∀ x ∈ c, x ≠ '/' ∧ x ≠ '*'
  | .line t => ∀ x ∈ t, x ≠ '/' ∧ x ≠ '\n'

instance (p : Piece) : Decidable p.ok := by
  cases p <;> unfold Piece.ok <;> infer_instance

def Piece.chars : Piece → List Char
  | .ws c => [c]
  | .block c => '/' :: '*' :: c ++ ['*', '/']
  | .line t => '/' :: '/' :: t ++ ['\n']

def flat (ps : List Piece) : List Char := ps.flatMap Piece.chars

/-- the scan is idle, running, has consumed `p` bytes and has found no start yet -/
structure IdleAt (s : Scan) (p : Nat) : Prop where
  state : s.state = .idle
  running : s.done = false
  pos : s.pos = p
  nostart : s.startPos = none

theorem step_idle_ws {s : Scan} {p : Nat} (h : IdleAt s p) {c : Char} (hc : IsWs c) :
    IdleAt (scanStep Char.utf8Size s c) (p + c.utf8Size) := by
  have hne : c ≠ '/' := by rcases hc with rfl | rfl | rfl | rfl <;> decide
  have hcond : ¬ (c ≠ ' ' ∧ c ≠ '\n' ∧ c ≠ '\r' ∧ c ≠ '\t') := by
    rcases hc with rfl | rfl | rfl | rfl <;> simp
  unfold scanStep
  simp only [h.running, Bool.false_eq_true, if_false, h.state, hne, hcond]
  refine ⟨?_, ?_, ?_, ?_⟩ <;> simp [h.state, h.running, h.pos, h.nostart]

/-- inside a comment body without `*`: the scan stays inside -/
theorem scan_inside (cs : List Char) (hcs : ∀ x ∈ cs, x ≠ '*') :
    ∀ (s : Scan), s.state = .insideComment → s.done = false →
      let s' := scanAll s cs
      s'.state = .insideComment ∧ s'.done = false ∧ s'.pos = s.pos + utf8Len cs ∧ s'.startPos = s.startPos
        ∧ s'.endPos = s.endPos := by
  induction cs with
  | nil => intro s h1 h2; simp [scanAll_nil, utf8Len_nil, h1, h2]
  | cons c cs ih =>
    intro s h1 h2
    have hc : c ≠ '*' := hcs c (List.mem_cons_self ..)
    have hstep : scanStep Char.utf8Size s c = { s with pos := s.pos + c.utf8Size } := by
      unfold scanStep; simp [h1, h2, hc]
    rw [scanAll_cons, hstep]
    have := ih (fun x hx => hcs x (List.mem_cons_of_mem _ hx)) { s with pos := s.pos + c.utf8Size } h1 h2
    simp only at this ⊢
    rw [utf8Len_cons]
    refine ⟨this.1, this.2.1, ?_, this.2.2.2.1, this.2.2.2.2⟩
    rw [this.2.2.1]; omega

/-- a line-comment text (no `/`, no newline) keeps the scan in Idle / LineCommentOrSomethingElse -/
theorem scan_linetext (cs : List Char) (hcs : ∀ x ∈ cs, x ≠ '/' ∧ x ≠ '\n') :
    ∀ (s : Scan), (s.state = .idle ∨ s.state = .lineCommentOrSomethingElse) → s.done = false →
      let s' := scanAll s cs
      (s'.state = .idle ∨ s'.state = .lineCommentOrSomethingElse) ∧ s'.done = false
        ∧ s'.pos = s.pos + utf8Len cs ∧ s'.startPos = s.startPos := by
  induction cs with
  | nil => intro s h1 h2; simp [scanAll_nil, utf8Len_nil, h1, h2]
  | cons c cs ih =>
    intro s h1 h2
    obtain ⟨hc1, hc2⟩ := hcs c (List.mem_cons_self ..)
    have hstep : ∃ st, (st = .idle ∨ st = .lineCommentOrSomethingElse) ∧
        scanStep Char.utf8Size s c = { s with pos := s.pos + c.utf8Size, state := st } := by
      unfold scanStep
      rcases h1 with h1 | h1
      · by_cases hw : c ≠ ' ' ∧ c ≠ '\n' ∧ c ≠ '\r' ∧ c ≠ '\t'
        · exact ⟨.lineCommentOrSomethingElse, Or.inr rfl, by simp [h1, h2, hc1, hw]⟩
        · refine ⟨.idle, Or.inl rfl, ?_⟩
          simp only [h2, Bool.false_eq_true, if_false, h1, hc1, hw]
      · refine ⟨.lineCommentOrSomethingElse, Or.inr rfl, ?_⟩
        simp only [h2, Bool.false_eq_true, if_false, h1, hc1, hc2]
    obtain ⟨st, hst, hstep⟩ := hstep
    rw [scanAll_cons, hstep]
    have := ih (fun x hx => hcs x (List.mem_cons_of_mem _ hx)) { s with pos := s.pos + c.utf8Size, state := st } hst h2
    simp only at this ⊢
    rw [utf8Len_cons]
    refine ⟨this.1, this.2.1, ?_, this.2.2.2⟩
    rw [this.2.2.1]; omega

theorem star_size : ('*' : Char).utf8Size = 1 := by decide
theorem slash_size : ('/' : Char).utf8Size = 1 := by decide
theorem nl_size : ('\n' : Char).utf8Size = 1 := by decide

/-- one ordinary piece, scanned backwards from Idle, leaves the scan Idle -/
theorem scan_piece {s : Scan} {p : Nat} (h : IdleAt s p) (pc : Piece) (hp : pc.ok) :
    IdleAt (scanAll s pc.chars.reverse) (p + utf8Len pc.chars) := by
  cases pc with
  | ws c =>
    simp only [Piece.chars, List.reverse_cons, List.reverse_nil, List.nil_append, scanAll_cons, scanAll_nil,
      utf8Len_cons, utf8Len_nil, Nat.add_zero]
    exact step_idle_ws h hp
  | block c =>
    have hrev : (Piece.block c).chars.reverse = '/' :: '*' :: (c.reverse ++ ['*', '/']) := by
      simp [Piece.chars]
    rw [hrev, scanAll_cons, scanAll_cons, scanAll_append]
    -- '/' then '*': inside the comment
    have h1 : scanStep Char.utf8Size s '/' = { s with pos := s.pos + 1, state := .beforeEndSlash } := by
      unfold scanStep; simp [h.running, h.state, slash_size]
    have h2 : scanStep Char.utf8Size { s with pos := s.pos + 1, state := .beforeEndSlash } '*'
        = { s with pos := s.pos + 2, endPos := some (s.pos + 2), state := .insideComment } := by
      unfold scanStep; simp [h.running, star_size]
    rw [h1, h2]
    have hin := scan_inside c.reverse (fun x hx => (hp x (List.mem_reverse.mp hx)).2)
      { s with pos := s.pos + 2, endPos := some (s.pos + 2), state := .insideComment } rfl h.running
    simp only at hin
    obtain ⟨i1, i2, i3, i4, _⟩ := hin
    generalize scanAll { s with pos := s.pos + 2, endPos := some (s.pos + 2), state := .insideComment } c.reverse = s3 at *
    rw [scanAll_cons, scanAll_cons, scanAll_nil]
    have h3 : scanStep Char.utf8Size s3 '*' = { s3 with pos := s3.pos + 1, state := .beforeBeginStar } := by
      unfold scanStep; simp [i1, i2, star_size]
    have h4 : scanStep Char.utf8Size { s3 with pos := s3.pos + 1, state := .beforeBeginStar } '/'
        = { s3 with pos := s3.pos + 2, state := .idle } := by
      unfold scanStep; simp [i2, slash_size]
    rw [h3, h4]
    refine ⟨rfl, i2, ?_, by rw [i4]; exact h.nostart⟩
    simp only [i3, utf8Len_reverse, h.pos, Piece.chars, utf8Len_cons, utf8Len_append, utf8Len_nil, star_size, slash_size]
    omega
  | line t =>
    have hrev : (Piece.line t).chars.reverse = '\n' :: (t.reverse ++ ['/', '/']) := by
      simp [Piece.chars]
    rw [hrev, scanAll_cons, scanAll_append]
    have h0 := step_idle_ws h (c := '\n') (Or.inr (Or.inl rfl))
    generalize scanStep Char.utf8Size s '\n' = s1 at h0
    have hl := scan_linetext t.reverse (fun x hx => hp x (List.mem_reverse.mp hx)) s1 (Or.inl h0.state) h0.running
    simp only at hl
    obtain ⟨l1, l2, l3, l4⟩ := hl
    generalize scanAll s1 t.reverse = s2 at *
    rw [scanAll_cons, scanAll_cons, scanAll_nil]
    have hfin : scanStep Char.utf8Size (scanStep Char.utf8Size s2 '/') '/' = { s2 with pos := s2.pos + 2, state := .idle } := by
      rcases l1 with l1 | l1
      · have a1 : scanStep Char.utf8Size s2 '/' = { s2 with pos := s2.pos + 1, state := .beforeEndSlash } := by
          unfold scanStep; simp [l1, l2, slash_size]
        rw [a1]; unfold scanStep; simp [l2, slash_size]
      · have a1 : scanStep Char.utf8Size s2 '/' = { s2 with pos := s2.pos + 1, state := .lineCommentOrSomethingElseBeforeSlash } := by
          unfold scanStep; simp [l1, l2, slash_size]
        rw [a1]; unfold scanStep; simp [l2, slash_size]
    rw [hfin]
    refine ⟨rfl, l2, ?_, by rw [l4]; exact h0.nostart⟩
    simp only [l3, h0.pos, utf8Len_reverse, Piece.chars, utf8Len_cons, utf8Len_append, utf8Len_nil, slash_size, nl_size]
    omega

theorem flat_cons (p : Piece) (ps : List Piece) : flat (p :: ps) = p.chars ++ flat ps := by
  simp [flat]

/-- all ordinary material, scanned backwards from Idle, leaves the scan Idle -/
theorem scan_pieces (ps : List Piece) (hps : ∀ p ∈ ps, p.ok) :
    ∀ (s : Scan) (p : Nat), IdleAt s p → IdleAt (scanAll s (flat ps).reverse) (p + utf8Len (flat ps)) := by
  induction ps with
  | nil => intro s p h; simpa [flat, scanAll_nil, utf8Len_nil] using h
  | cons pc ps ih =>
    intro s p h
    rw [flat_cons, List.reverse_append, scanAll_append]
    have h1 := ih (fun q hq => hps q (List.mem_cons_of_mem _ hq)) s p h
    have h2 := scan_piece h1 pc (hps pc (List.mem_cons_self ..))
    rw [utf8Len_append]
    have : p + (utf8Len pc.chars + utf8Len (flat ps)) = p + utf8Len (flat ps) + utf8Len pc.chars := by omega
    rw [this]
    exact h2

theorem idle_init : IdleAt {} 0 := ⟨rfl, rfl, rfl, rfl⟩


/-! ### the doc comment itself -/

/-- in the body of the doc comment (no `/`): the scan stays in one of the three "inside" states -/
def InDoc (s : Scan) : Prop :=
  s.state = .insideComment ∨ s.state = .beforeBeginStar ∨ s.state = .beforeBeginStarStar

theorem scan_body (cs : List Char) (hcs : ∀ x ∈ cs, x ≠ '/') :
    ∀ (s : Scan), InDoc s → s.done = false →
      let s' := scanAll s cs
      InDoc s' ∧ s'.done = false ∧ s'.pos = s.pos + utf8Len cs ∧ s'.startPos = s.startPos ∧ s'.endPos = s.endPos
        ∧ (∀ c, cs.getLast? = some c → c ≠ '*' → s'.state = .insideComment) := by
  induction cs with
  | nil => intro s h1 h2; simp [scanAll_nil, utf8Len_nil, h1, h2]
  | cons c cs ih =>
    intro s h1 h2
    have hc : c ≠ '/' := hcs c (List.mem_cons_self ..)
    have hstep : ∃ st, (st = .insideComment ∨ st = .beforeBeginStar ∨ st = .beforeBeginStarStar) ∧
        (c ≠ '*' → st = .insideComment) ∧
        scanStep Char.utf8Size s c = { s with pos := s.pos + c.utf8Size, state := st } := by
      unfold scanStep
      rcases h1 with h1 | h1 | h1
      · by_cases hs : c = '*'
        · exact ⟨.beforeBeginStar, Or.inr (Or.inl rfl), fun h => absurd hs h, by simp [h1, h2, hs]⟩
        · exact ⟨.insideComment, Or.inl rfl, fun _ => rfl, by simp [h1, h2, hs]⟩
      · by_cases hs : c = '*'
        · exact ⟨.beforeBeginStarStar, Or.inr (Or.inr rfl), fun h => absurd hs h, by simp [h1, h2, hs]⟩
        · exact ⟨.insideComment, Or.inl rfl, fun _ => rfl, by simp [h1, h2, hs, hc]⟩
      · exact ⟨.insideComment, Or.inl rfl, fun _ => rfl, by simp [h1, h2, hc]⟩
    obtain ⟨st, hst, hst', hstep⟩ := hstep
    rw [scanAll_cons, hstep]
    have := ih (fun x hx => hcs x (List.mem_cons_of_mem _ hx)) { s with pos := s.pos + c.utf8Size, state := st } hst h2
    simp only at this ⊢
    rw [utf8Len_cons]
    refine ⟨this.1, this.2.1, by rw [this.2.2.1]; omega, this.2.2.2.1, this.2.2.2.2.1, ?_⟩
    intro d hd hne
    cases cs with
    | nil =>
      simp only [List.getLast?_singleton, Option.some.injEq] at hd
      subst hd
      simp only [scanAll_nil]
      exact hst' hne
    | cons e es =>
      rw [List.getLast?_cons_cons] at hd
      exact this.2.2.2.2.2 d hd hne

/-- **The doc comment directly before a construct is found, verbatim** — for every text before
    it, every body (no `/`, not beginning with `*`), every run of whitespace and ordinary comments
    after it. -/
theorem findContent_doc (pre body : List Char) (ps : List Piece)
    (hbody : ∀ x ∈ body, x ≠ '/') (hhead : body.head? ≠ some '*') (hps : ∀ p ∈ ps, p.ok) :
    findContent (pre ++ ['/', '*', '*'] ++ body ++ ['*', '/'] ++ flat ps) = .ok (some body) := by
  unfold findContent findContentWith
  have hrev : (pre ++ ['/', '*', '*'] ++ body ++ ['*', '/'] ++ flat ps).reverse
      = (flat ps).reverse ++ ('/' :: '*' :: (body.reverse ++ ('*' :: '*' :: '/' :: pre.reverse))) := by
    simp
  have hfold : (pre ++ ['/', '*', '*'] ++ body ++ ['*', '/'] ++ flat ps).reverse.foldl (scanStep Char.utf8Size) {}
      = scanAll {} ((flat ps).reverse ++ ('/' :: '*' :: (body.reverse ++ ('*' :: '*' :: '/' :: pre.reverse)))) := by
    rw [hrev]; rfl
  rw [hfold, scanAll_append]
  -- after the ordinary material: idle
  have h0 := scan_pieces ps hps {} 0 idle_init
  simp only [Nat.zero_add] at h0
  generalize scanAll {} (flat ps).reverse = s0 at h0
  rw [scanAll_cons, scanAll_cons, scanAll_append]
  have h1 : scanStep Char.utf8Size s0 '/' = { s0 with pos := s0.pos + 1, state := .beforeEndSlash } := by
    unfold scanStep; simp [h0.running, h0.state, slash_size]
  have h2 : scanStep Char.utf8Size { s0 with pos := s0.pos + 1, state := .beforeEndSlash } '*'
      = { s0 with pos := s0.pos + 2, endPos := some (s0.pos + 2), state := .insideComment } := by
    unfold scanStep; simp [h0.running, star_size]
  rw [h1, h2]
  -- the body
  have hb := scan_body body.reverse (fun x hx => hbody x (List.mem_reverse.mp hx))
    { s0 with pos := s0.pos + 2, endPos := some (s0.pos + 2), state := .insideComment } (Or.inl rfl) h0.running
  simp only at hb
  obtain ⟨b1, b2, b3, b4, b5, b6⟩ := hb
  have hinside : (scanAll { s0 with pos := s0.pos + 2, endPos := some (s0.pos + 2), state := .insideComment } body.reverse).state
      = .insideComment := by
    cases hbd : body with
    | nil => simp [scanAll_nil]
    | cons c cs =>
      rw [hbd] at hhead b6
      have hc : c ≠ '*' := by intro h; apply hhead; simp [h]
      exact b6 c (by simp) hc
  generalize scanAll { s0 with pos := s0.pos + 2, endPos := some (s0.pos + 2), state := .insideComment } body.reverse = s1 at *
  -- `*`, `*`, `/`
  rw [scanAll_cons, scanAll_cons, scanAll_cons]
  have h3 : scanStep Char.utf8Size s1 '*' = { s1 with pos := s1.pos + 1, state := .beforeBeginStar } := by
    unfold scanStep; simp [hinside, b2, star_size]
  have h4 : scanStep Char.utf8Size { s1 with pos := s1.pos + 1, state := .beforeBeginStar } '*'
      = { s1 with pos := s1.pos + 2, state := .beforeBeginStarStar } := by
    unfold scanStep; simp [b2, star_size]
  have h5 : scanStep Char.utf8Size { s1 with pos := s1.pos + 2, state := .beforeBeginStarStar } '/'
      = { s1 with pos := s1.pos + 3, startPos := some (s1.pos + 3 - 3), state := .beforeBeginStarStar, done := true } := by
    unfold scanStep; simp [b2, slash_size]
  rw [h3, h4, h5]
  -- the rest of the text is ignored
  have hdone : scanAll { s1 with pos := s1.pos + 3, startPos := some (s1.pos + 3 - 3), state := .beforeBeginStarStar, done := true } pre.reverse
      = { s1 with pos := s1.pos + 3, startPos := some (s1.pos + 3 - 3), state := .beforeBeginStarStar, done := true } :=
    C18.foldl_done_stable _ _ rfl _
  rw [hdone]
  simp only [b5]
  have hsp : s1.pos + 3 - 3 = utf8Len (flat ps) + 2 + utf8Len body := by
    rw [b3, utf8Len_reverse, h0.pos]; omega
  have hlen : utf8Len (pre ++ ['/', '*', '*'] ++ body ++ ['*', '/'] ++ flat ps)
      = utf8Len (pre ++ ['/', '*', '*']) + utf8Len body + (2 + utf8Len (flat ps)) := by
    simp only [utf8Len_append, utf8Len_cons, utf8Len_nil, star_size, slash_size]
    omega
  rw [hsp, h0.pos, hlen]
  have hno : ¬ (utf8Len (flat ps) + 2 + utf8Len body > utf8Len (pre ++ ['/', '*', '*']) + utf8Len body + (2 + utf8Len (flat ps))
      ∨ utf8Len (flat ps) + 2 > utf8Len (pre ++ ['/', '*', '*']) + utf8Len body + (2 + utf8Len (flat ps))) := by omega
  simp only [hno, if_false]
  have ha : utf8Len (pre ++ ['/', '*', '*']) + utf8Len body + (2 + utf8Len (flat ps)) - (utf8Len (flat ps) + 2 + utf8Len body)
      = utf8Len (pre ++ ['/', '*', '*']) := by omega
  have hb' : utf8Len (pre ++ ['/', '*', '*']) + utf8Len body + (2 + utf8Len (flat ps)) - (utf8Len (flat ps) + 2)
      = utf8Len (pre ++ ['/', '*', '*']) + utf8Len body := by omega
  rw [ha, hb']
  have hs := sliceBytes_ok (pre ++ ['/', '*', '*']) body (['*', '/'] ++ flat ps)
  have hin : pre ++ ['/', '*', '*'] ++ body ++ ['*', '/'] ++ flat ps = pre ++ ['/', '*', '*'] ++ body ++ (['*', '/'] ++ flat ps) := by
    simp
  rw [hin, hs]

/-- … so `get_javadoc` at the construct's start returns the normal form of exactly that body -/
theorem getJavadoc_doc (pre body rest : List Char) (ps : List Piece)
    (hbody : ∀ x ∈ body, x ≠ '/') (hhead : body.head? ≠ some '*') (hps : ∀ p ∈ ps, p.ok) :
    getJavadoc (pre ++ ['/', '*', '*'] ++ body ++ ['*', '/'] ++ flat ps ++ rest)
        (utf8Len (pre ++ ['/', '*', '*'] ++ body ++ ['*', '/'] ++ flat ps))
      = .ok (some (String.ofList (parseJavadoc body))) := by
  unfold getJavadoc
  have := sliceBytes_ok [] (pre ++ ['/', '*', '*'] ++ body ++ ['*', '/'] ++ flat ps) rest
  simp only [List.nil_append, utf8Len_nil, Nat.zero_add] at this
  rw [this]
  simp only
  rw [findContent_doc pre body ps hbody hhead hps]


/-! ### no doc comment directly before the construct -/

theorem scan_lcose (cs : List Char) (hcs : ∀ x ∈ cs, x ≠ '/' ∧ x ≠ '\n') :
    ∀ (s : Scan), s.state = .lineCommentOrSomethingElse → s.done = false →
      let s' := scanAll s cs
      s'.state = .lineCommentOrSomethingElse ∧ s'.done = false ∧ s'.startPos = s.startPos := by
  induction cs with
  | nil => intro s h1 h2; simp [scanAll_nil, h1, h2]
  | cons c cs ih =>
    intro s h1 h2
    obtain ⟨hc1, hc2⟩ := hcs c (List.mem_cons_self ..)
    have hstep : scanStep Char.utf8Size s c = { s with pos := s.pos + c.utf8Size } := by
      unfold scanStep; simp [h1, h2, hc1, hc2]
    rw [scanAll_cons, hstep]
    exact ih (fun x hx => hcs x (List.mem_cons_of_mem _ hx)) { s with pos := s.pos + c.utf8Size } h1 h2

theorem findContent_of_nostart (input : List Char)
    (h : (input.reverse.foldl (scanStep Char.utf8Size) {}).startPos = none) : findContent input = .ok none := by
  unfold findContent findContentWith
  simp only [h]

/-- nothing but whitespace and ordinary comments before the construct: no documentation -/
theorem findContent_none_start (ps : List Piece) (hps : ∀ p ∈ ps, p.ok) : findContent (flat ps) = .ok none := by
  apply findContent_of_nostart
  exact (scan_pieces ps hps {} 0 idle_init).nostart

/-- going backwards over whitespace and ordinary comments the scan meets a character `c` of another
    token (not `/`), and the rest `l` of that line has no `/`: no documentation — whatever stands on
    the lines before (`pre` is empty or ends with a newline), in particular the doc comment of the
    previous member -/
theorem findContent_none_token (pre l : List Char) (c : Char) (ps : List Piece)
    (hpre : pre = [] ∨ pre.getLast? = some '\n')
    (hl : ∀ x ∈ l, x ≠ '/' ∧ x ≠ '\n') (hc : ¬ IsWs c) (hc' : c ≠ '/') (hps : ∀ p ∈ ps, p.ok) :
    findContent (pre ++ l ++ [c] ++ flat ps) = .ok none := by
  apply findContent_of_nostart
  have hrev : (pre ++ l ++ [c] ++ flat ps).reverse = (flat ps).reverse ++ (c :: (l.reverse ++ pre.reverse)) := by simp
  rw [hrev]
  show (scanAll {} ((flat ps).reverse ++ (c :: (l.reverse ++ pre.reverse)))).startPos = none
  rw [scanAll_append]
  have h0 := scan_pieces ps hps {} 0 idle_init
  generalize scanAll {} (flat ps).reverse = s0 at h0
  rw [scanAll_cons, scanAll_append]
  have hcw : c ≠ ' ' ∧ c ≠ '\n' ∧ c ≠ '\r' ∧ c ≠ '\t' := by
    refine ⟨?_, ?_, ?_, ?_⟩ <;> intro h <;> apply hc <;> simp [IsWs, h]
  have h1 : scanStep Char.utf8Size s0 c = { s0 with pos := s0.pos + c.utf8Size, state := .lineCommentOrSomethingElse } := by
    unfold scanStep; simp [h0.running, h0.state, hc', hcw]
  rw [h1]
  have h2 := scan_lcose l.reverse (fun x hx => hl x (List.mem_reverse.mp hx))
    { s0 with pos := s0.pos + c.utf8Size, state := .lineCommentOrSomethingElse } rfl h0.running
  simp only at h2
  obtain ⟨l1, l2, l3⟩ := h2
  generalize scanAll { s0 with pos := s0.pos + c.utf8Size, state := .lineCommentOrSomethingElse } l.reverse = s2 at *
  rcases hpre with rfl | hlast
  · simp only [List.reverse_nil, scanAll_nil]
    rw [l3]; exact h0.nostart
  · -- the newline that starts this line stops the scan
    obtain ⟨pre', rfl⟩ : ∃ pre', pre = pre' ++ ['\n'] := by
      cases hp : pre.reverse with
      | nil => simp [List.reverse_eq_nil_iff.mp hp] at hlast
      | cons x xs =>
        have : pre = xs.reverse ++ [x] := by
          have := congrArg List.reverse hp; simpa using this
        rw [this] at hlast
        simp only [List.getLast?_append, List.getLast?_singleton, Option.some_or, Option.some.injEq] at hlast
        exact ⟨xs.reverse, by rw [this, hlast]⟩
    simp only [List.reverse_append, List.reverse_cons, List.reverse_nil, List.nil_append, List.singleton_append,
      scanAll_cons]
    have h3 : scanStep Char.utf8Size s2 '\n' = { s2 with pos := s2.pos + 1, done := true } := by
      unfold scanStep; simp [l1, l2, nl_size]
    rw [h3]
    have : scanAll { s2 with pos := s2.pos + 1, done := true } pre'.reverse = { s2 with pos := s2.pos + 1, done := true } :=
      C18.foldl_done_stable _ _ rfl _
    rw [this]
    show s2.startPos = none
    rw [l3]; exact h0.nostart

/-- non-vacuity: the hypotheses are met by ordinary source text -/
example : findContent ("/** far */\n  /** Größe 🎉 */\n  /* note */ // line\n  ".toList) = .ok (some " Größe 🎉 ".toList) :=
  findContent_doc "/** far */\n  ".toList " Größe 🎉 ".toList
    [.ws '\n', .ws ' ', .ws ' ', .block " note ".toList, .ws ' ', .line " line".toList, .ws ' ', .ws ' ']
    (by decide) (by decide) (by decide)

example : findContent ("/** doc of f */\n  void f();\n  // c\n  ".toList) = .ok none :=
  findContent_none_token "/** doc of f */\n".toList "  void f()".toList ';'
    [.ws '\n', .ws ' ', .ws ' ', .line " c".toList, .ws ' ', .ws ' ']
    (Or.inr (by decide)) (by decide) (by decide) (by decide) (by decide)

end Aidl.Props.JavadocAttach
