import AidlVerif.Model.Lexer
import AidlVerif.Props.JavadocTotal

/-!
# Tokens are slices of the input on character boundaries — for every input and every lexer table

* `matchAt_prefix`: whatever the regex, a match ends at `p + (byte length of a prefix of the rest)`;
* `next_token_slice`: a token returned by `Matcher::next` is `skipped ++ tok ++ rest = input rest`,
  `start = p + |skipped|`, `stop = start + |tok|`, `text = tok`;
* `next_invalid_boundary`: the location of an `InvalidToken` is a character boundary.
-/

namespace Aidl.Props.LexerBounds
open Aidl.Regex Aidl.Lexer Aidl.Javadoc Aidl.Props.JavadocTotal

/-- `(s, p)` is reached from `(s0, p0)` by consuming a prefix -/
def Reach (s0 : List Char) (p0 : Nat) (s : List Char) (p : Nat) : Prop :=
  ∃ pre, s0 = pre ++ s ∧ p = p0 + utf8Len pre

theorem Reach.refl (s : List Char) (p : Nat) : Reach s p s p := ⟨[], rfl, by simp [utf8Len_nil]⟩

theorem Reach.cons {s0 p0 c s p} (h : Reach s0 p0 (c :: s) p) : Reach s0 p0 s (p + c.utf8Size) := by
  obtain ⟨pre, h1, h2⟩ := h
  exact ⟨pre ++ [c], by rw [h1]; simp, by rw [h2, utf8Len_append, utf8Len_cons, utf8Len_nil]; omega⟩

/-- a continuation all of whose answers at reachable positions satisfy `Q` -/
def GoodK (s0 : List Char) (p0 : Nat) (Q : Nat → Prop) (k : K) : Prop :=
  ∀ s p e, Reach s0 p0 s p → k s p = some e → Q e

theorem starLoop_good (s0 : List Char) (p0 : Nat) (Q : Nat → Prop)
    (body : List Char → Nat → K → Option Nat)
    (hbody : ∀ k, GoodK s0 p0 Q k → ∀ s p e, Reach s0 p0 s p → body s p k = some e → Q e)
    (k : K) (hk : GoodK s0 p0 Q k) :
    ∀ n s p e, Reach s0 p0 s p → starLoop body k n s p = some e → Q e := by
  intro n
  induction n with
  | zero => intro s p e hr h; exact hk s p e hr h
  | succ n ih =>
    intro s p e hr h
    unfold starLoop at h
    split at h
    · rename_i r hb
      cases h
      refine hbody _ ?_ s p _ hr hb
      intro s' p' e' hr' h'
      dsimp only at h'
      split at h'
      · exact ih s' p' e' hr' h'
      · cases h'
    · exact hk s p e hr h

theorem m_good (s0 : List Char) (p0 : Nat) (Q : Nat → Prop) (r : Re) (fuel : Nat) :
    ∀ k, GoodK s0 p0 Q k → ∀ s p e, Reach s0 p0 s p → m r fuel s p k = some e → Q e := by
  induction r with
  | eps => intro k hk s p e hr h; exact hk s p e hr (by simpa [m] using h)
  | cls rs =>
    intro k hk s p e hr h
    cases s with
    | nil => simp [m] at h
    | cons c s' =>
      simp only [m] at h
      split at h
      · exact hk _ _ e hr.cons h
      · cases h
  | seq a b iha ihb =>
    intro k hk s p e hr h
    simp only [m] at h
    exact iha _ (fun s' p' e' hr' h' => ihb k hk s' p' e' hr' h') s p e hr h
  | alt a b iha ihb =>
    intro k hk s p e hr h
    simp only [m] at h
    split at h
    · rename_i r' ha; cases h; exact iha k hk s p _ hr ha
    · exact ihb k hk s p e hr h
  | star a iha =>
    intro k hk s p e hr h
    simp only [m] at h
    exact starLoop_good s0 p0 Q (m a fuel) (fun k hk s p e hr h => iha k hk s p e hr h) k hk fuel s p e hr h

/-- a match ends at the start plus the byte length of a prefix of the text -/
theorem matchAt_prefix (r : Re) (fuel : Nat) (s : List Char) (p e : Nat) (h : matchAt r fuel s p = some e) :
    ∃ pre post, s = pre ++ post ∧ e = p + utf8Len pre := by
  unfold matchAt at h
  refine m_good s p (fun e => ∃ pre post, s = pre ++ post ∧ e = p + utf8Len pre) r fuel _ ?_ s p e (Reach.refl s p) h
  intro s' p' e' hr h'
  cases h'
  obtain ⟨pre, h1, h2⟩ := hr
  exact ⟨pre, s', h1, h2⟩

theorem bestMatch_prefix (table : LexTable) (fuel : Nat) (s : List Char) (p len i : Nat)
    (h : bestMatch table fuel s p = some (len, i)) :
    ∃ pre post, s = pre ++ post ∧ len = utf8Len pre := by
  unfold bestMatch at h
  let P : Option (Nat × Nat) → Prop := fun b => ∀ l j, b = some (l, j) → ∃ pre post, s = pre ++ post ∧ l = utf8Len pre
  have key : ∀ (is : List Nat) (b : Option (Nat × Nat)), P b →
      P (is.foldl (fun best i =>
        match matchAt table[i]!.1 fuel s p with
        | none => best
        | some e =>
          let len := e - p
          match best with
          | none => some (len, i)
          | some (bl, _) => if len ≥ bl then some (len, i) else best) b) := by
    intro is
    induction is with
    | nil => intro b hb; simpa using hb
    | cons i is ih =>
      intro b hb
      simp only [List.foldl_cons]
      apply ih
      intro l j hlj
      cases hm : matchAt table[i]!.1 fuel s p with
      | none => rw [hm] at hlj; exact hb l j hlj
      | some e =>
        rw [hm] at hlj
        obtain ⟨pre, post, h1, h2⟩ := matchAt_prefix _ _ _ _ _ hm
        have hnew : ∀ l j, some (e - p, i) = some (l, j) → ∃ pre post, s = pre ++ post ∧ l = utf8Len pre := by
          intro l j h'
          cases h'
          exact ⟨pre, post, h1, by omega⟩
        cases b with
        | none => exact hnew l j hlj
        | some bb =>
          obtain ⟨bl, bi⟩ := bb
          simp only at hlj
          split at hlj
          · exact hnew l j hlj
          · exact hb l j hlj
  exact key _ none (by intro l j h'; cases h') len i h

theorem splitBytes_prefix (pre post : List Char) : splitBytes (utf8Len pre) (pre ++ post) = (pre, post) := by
  induction pre with
  | nil => cases post <;> simp [utf8Len_nil, splitBytes]
  | cons c cs ih =>
    rw [utf8Len_cons]
    have hpos := utf8Size_pos c
    obtain ⟨k, hk⟩ : ∃ k, c.utf8Size + utf8Len cs = k + 1 := ⟨c.utf8Size + utf8Len cs - 1, by omega⟩
    rw [hk]
    simp only [List.cons_append, splitBytes]
    have h2 : k + 1 - c.utf8Size = utf8Len cs := by omega
    rw [h2, ih]

/-- what `Matcher::next` returns, for every table, input and position -/
def NextOk (s : List Char) (p : Nat) : LexResult → Prop
  | .token t rest => ∃ skipped tok, s = skipped ++ tok ++ rest ∧ t.start = p + utf8Len skipped ∧
      t.stop = t.start + utf8Len tok ∧ t.text = String.ofList tok
  | .eof => True
  | .invalid l => ∃ pre post, s = pre ++ post ∧ l = p + utf8Len pre

theorem next_ok (table : LexTable) (fuel : Nat) : ∀ (s : List Char) (p : Nat), NextOk s p (next table fuel s p) := by
  induction fuel with
  | zero => intro s p; exact ⟨[], s, rfl, by simp [utf8Len_nil]⟩
  | succ fuel ih =>
    intro s p
    cases s with
    | nil => rw [next]; trivial
    | cons c cs =>
      rw [next]
      case x_4 => intro h; cases h
      dsimp only
      cases hb : bestMatch table (fuel + 1) (c :: cs) p with
      | none => exact ⟨[], c :: cs, rfl, by simp [utf8Len_nil]⟩
      | some li =>
        obtain ⟨len, i⟩ := li
        obtain ⟨pre, post, h1, h2⟩ := bestMatch_prefix table _ _ p len i hb
        have hsp : splitBytes len (c :: cs) = (pre, post) := by rw [h1, h2]; exact splitBytes_prefix pre post
        dsimp only
        rw [hsp]
        dsimp only
        by_cases hskip : table[i]!.2 = true
        · rw [if_pos hskip]
          by_cases hz : len = 0
          · rw [if_pos hz]; exact ⟨[], c :: cs, rfl, by simp [utf8Len_nil]⟩
          · rw [if_neg hz]
            have := ih post (p + len)
            revert this
            cases next table fuel post (p + len) with
            | eof => intro _; trivial
            | invalid l =>
              rintro ⟨a, b, h3, h4⟩
              exact ⟨pre ++ a, b, by rw [h1, h3]; simp, by rw [h4, h2, utf8Len_append]; omega⟩
            | token t rest =>
              rintro ⟨sk, tok, h3, h4, h5, h6⟩
              exact ⟨pre ++ sk, tok, by rw [h1, h3]; simp, by rw [h4, h2, utf8Len_append]; omega, h5, h6⟩
        · rw [if_neg hskip]
          exact ⟨[], pre, by rw [h1]; simp, by simp [utf8Len_nil], by simp [h2], rfl⟩

/-- a token is a slice of the input: its offsets are character boundaries and its text is what lies between -/
theorem next_token_slice (table : LexTable) (fuel : Nat) (s : List Char) (p : Nat) (t : Token) (rest : List Char)
    (h : next table fuel s p = .token t rest) :
    ∃ skipped tok, s = skipped ++ tok ++ rest ∧ t.start = p + utf8Len skipped ∧
      t.stop = t.start + utf8Len tok ∧ t.text = String.ofList tok := by
  have := next_ok table fuel s p
  rw [h] at this
  exact this

theorem next_invalid_boundary (table : LexTable) (fuel : Nat) (s : List Char) (p l : Nat)
    (h : next table fuel s p = .invalid l) : ∃ pre post, s = pre ++ post ∧ l = p + utf8Len pre := by
  have := next_ok table fuel s p
  rw [h] at this
  exact this

end Aidl.Props.LexerBounds
