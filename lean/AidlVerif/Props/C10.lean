import AidlVerif.Spec.C10
import AidlVerif.Props.C05
import AidlVerif.Lemmas.Methods

/-!
# C10 — property theorems (about the model)
-/

namespace Aidl.Props.C10
open Aidl Aidl.Spec Aidl.Spec.C10

theorem methodsOf_mapTypes (h : Ty → TypeKind) (ast : AidlFile) :
    methodsOf (mapTypes h ast) = (methodsOf ast).map (Method.mapTypes h) := by
  unfold methodsOf mapTypes
  cases hitem : ast.item with
  | interface i =>
    simp only [Interface.methods]
    generalize i.elements = els
    induction els with
    | nil => rfl
    | cons el els ih =>
      cases el with
      | const c => simpa [InterfaceElement.mapTypes, List.filterMap_cons] using ih
      | method m => simpa [InterfaceElement.mapTypes, List.filterMap_cons] using ih
  | parcelable p => simp
  | enum e => simp [hitem]

theorem interfaceOneway_mapTypes (h : Ty → TypeKind) (ast : AidlFile) :
    interfaceOneway (mapTypes h ast) = interfaceOneway ast := by
  unfold interfaceOneway mapTypes
  cases hitem : ast.item <;> simp [hitem]

/-- resolution never turns a type into `void` nor `void` into something else -/
theorem newKind_void (imports declared : List String) (defined : Defined) (t : Ty) :
    (Spec.C05.newKind imports declared defined t = .void) ↔ (t.kind = .void) := by
  unfold Spec.C05.newKind
  by_cases hk : t.kind = .unresolved
  · simp only [hk, if_true]
    constructor
    · intro h
      unfold Spec.C05.classify at h
      repeat (first | split at h | cases h)
    · intro h; cases h
  · simp [hk]

/-- the methods of the validated tree: kinds rewritten, oneway propagated; nothing else changes -/
theorem methodsOf_validated {ho : HashOrder} {defined : Defined} {syn : List Diag} {ast : AidlFile} {g : Groups}
    (hg : validateGroups ho defined syn ast = .ok g) :
    methodsOf g.ast = (methodsOf ast).map (fun m =>
      { m.mapTypes (Spec.C05.newKind (ast.imports.map Import.qname) (ast.declaredParcelables.map Import.qname) defined)
        with oneway := m.oneway || interfaceOneway ast }) := by
  rw [validateGroups_ast hg, Props.C05.resolveTypes_eq, methodsOf_setUpOneway, interfaceOneway_mapTypes,
    methodsOf_mapTypes]
  cases hio : interfaceOneway ast
  · simp only [Bool.false_eq_true, if_false, Bool.or_false]
    apply List.map_congr_left
    intro m _
    cases m; rfl
  · simp only [if_true, Bool.or_true, List.map_map]
    apply List.map_congr_left
    intro m _
    rfl

theorem interfaceOneway_validated {ho : HashOrder} {defined : Defined} {syn : List Diag} {ast : AidlFile} {g : Groups}
    (hg : validateGroups ho defined syn ast = .ok g) : interfaceOneway g.ast = interfaceOneway ast := by
  rw [validateGroups_ast hg, Props.C05.resolveTypes_eq, interfaceOneway_setUpOneway, interfaceOneway_mapTypes]

/-- **Propagation.** In the validated tree every method is oneway iff the source says so or the
    interface is oneway. -/
theorem flags {ho : HashOrder} {defined : Defined} {syn : List Diag} {ast : AidlFile} {g : Groups}
    (hg : validateGroups ho defined syn ast = .ok g) :
    (methodsOf g.ast).map (·.oneway) = (methodsOf ast).map (fun m => m.oneway || interfaceOneway ast) := by
  rw [methodsOf_validated hg, List.map_map]
  rfl

/-- the Warnings of `set_up_oneway_interface`, counted per range -/
theorem warningsAt_setUpOneway (x : AidlFile) (r : Range) :
    warningsAt (setUpOneway x).2 r
      = ((methodsOf x).filter (fun m => interfaceOneway x && m.oneway && m.onewayRange == r)).length := by
  rw [setUpOneway_diags]
  unfold warningsAt methodsOf interfaceOneway
  cases hitem : x.item with
  | interface i =>
    simp only
    by_cases hio : i.oneway = true
    · simp only [hio, if_true, Bool.true_and]
      rw [List.countP_map, List.countP_filter, List.countP_eq_length_filter]
      congr 1
      apply List.filter_congr
      intro m _
      simp only [onewayWarning, mkDiag, Function.comp, decide_true, true_and]
      by_cases hr : m.onewayRange = r <;> simp [hr]
    · have : i.oneway = false := by simpa using hio
      simp only [this, Bool.false_eq_true, if_false, Bool.false_and, List.countP_nil]
      generalize i.methods = l
      induction l <;> simp_all [List.filter_cons]
  | parcelable p => simp
  | enum e => simp

/-- **Return rule, per method**: one Error on the return type iff oneway and not void -/
theorem errorsAt_returnDiags (ms : List Method) (r : Range) :
    errorsAt (ms.flatMap returnDiags) r
      = (ms.filter (fun m => m.oneway && m.returnType.kind != .void && m.returnType.sym == r)).length := by
  unfold errorsAt
  induction ms with
  | nil => rfl
  | cons m ms ih =>
    simp only [List.flatMap_cons, List.countP_append, ih, List.filter_cons]
    unfold returnDiags
    by_cases ho : m.oneway = true <;> by_cases hv : m.returnType.kind = .void <;>
      by_cases hs : m.returnType.sym = r <;> simp [ho, hv, hs, mkDiag] <;> omega

/-- hypotheses on ranges (decidable; evaluated by the harness on every case): no other Warning
    sits on a method's `oneway` range, no other Error on a method's return-type name -/
def Fresh (ast : AidlFile) (g : Groups) (ids : List Diag) : Prop :=
  (∀ d ∈ g.syn ++ g.unknown ++ g.imports ++ g.decls ++ g.containers ++ g.methods,
      d.kind = .warning → ∀ m ∈ methodsOf ast, d.range ≠ m.onewayRange)
  ∧ (∀ d ∈ g.syn ++ g.unknown ++ g.imports ++ g.decls ++ g.containers ++ g.oneway ++ argDiags g.ast ++ ids,
      d.kind = .error → ∀ m ∈ methodsOf ast, d.range ≠ m.returnType.sym)

instance (ast : AidlFile) (g : Groups) (ids : List Diag) : Decidable (Fresh ast g ids) := by
  unfold Fresh; infer_instance

theorem validateGroups_oneway {ho : HashOrder} {defined : Defined} {syn : List Diag} {ast : AidlFile} {g : Groups}
    (hg : validateGroups ho defined syn ast = .ok g) :
    g.oneway = (setUpOneway (resolveTypes ast (ast.imports.map Import.qname)
      (ast.declaredParcelables.map Import.qname) defined).1).2 := by
  unfold validateGroups at hg
  simp only at hg
  split at hg
  · cases hg
  · split at hg
    · cases hg
    · cases hg; rfl

/-- **C10 for the model.** -/
theorem holds (ho : HashOrder) (defined : Defined) (fr out : FileResult)
    (h : validateFile ho defined fr = .ok out)
    (fresh : ∀ ast g ids, fr.ast = some ast → validateGroups ho defined fr.diags ast = .ok g →
      idDiagsLoop {} (methodsOf g.ast) = .ok ids → Fresh ast g ids) :
    holdsFile fr out = true := by
  unfold validateFile at h
  cases hast : fr.ast with
  | none =>
    simp only [hast] at h
    cases h
    simp [holdsFile, hast]
  | some ast =>
    simp only [hast] at h
    cases hg : validateGroups ho defined fr.diags ast with
    | error e => simp [hg] at h
    | ok g =>
      simp only [hg] at h
      cases h
      obtain ⟨ids, hids, hperm⟩ := groups_perm hg
      obtain ⟨fw, fe⟩ := fresh ast g ids hast hg hids
      simp only [holdsFile, hast, flags hg, interfaceOneway_validated hg, Bool.and_eq_true, beq_self_eq_true,
        true_and, List.all_eq_true, beq_iff_eq]
      constructor
      · -- Warnings on the redundant keyword
        intro m hm
        have hpermW : g.all.Perm ((g.syn ++ g.unknown ++ g.imports ++ g.decls ++ g.containers ++ g.methods) ++ g.oneway) := by
          unfold Groups.all
          simp only [List.append_assoc]
          refine List.Perm.append_left _ (List.Perm.append_left _ (List.Perm.append_left _
            (List.Perm.append_left _ (List.Perm.append_left _ List.perm_append_comm))))
        have hc := countP_sorted_group (fun d => decide (d.kind = .warning ∧ d.range = m.onewayRange)) g.all _ g.oneway hpermW
          (by
            intro d hd
            simp only [decide_eq_false_iff_not, not_and]
            intro hk heq
            exact fw d hd hk m hm heq)
        unfold warningsAt
        rw [hc, validateGroups_oneway hg]
        have := warningsAt_setUpOneway (resolveTypes ast (ast.imports.map Import.qname)
          (ast.declaredParcelables.map Import.qname) defined).1 m.onewayRange
        unfold warningsAt at this
        rw [this, Props.C05.resolveTypes_eq, methodsOf_mapTypes, interfaceOneway_mapTypes, List.filter_map,
          List.length_map]
        congr 1
      · -- Errors on the return type
        intro m hm
        have hpermE : g.all.Perm ((g.syn ++ g.unknown ++ g.imports ++ g.decls ++ g.containers ++ g.oneway
            ++ argDiags g.ast ++ ids) ++ (methodsOf g.ast).flatMap returnDiags) := by
          refine hperm.trans ?_
          unfold Groups.othersThanArgs
          simp only [List.append_assoc]
          refine List.Perm.append_left _ (List.Perm.append_left _ (List.Perm.append_left _
            (List.Perm.append_left _ (List.Perm.append_left _ (List.Perm.append_left _ ?_)))))
          -- R ++ (ids ++ A) ~ A ++ (ids ++ R)
          refine List.perm_append_comm.trans ?_
          rw [← List.append_assoc (argDiags g.ast) ids]
          exact List.Perm.append_right _ List.perm_append_comm
        have hc := countP_sorted_group (fun d => decide (d.kind = .error ∧ d.range = m.returnType.sym)) g.all _ _ hpermE
          (by
            intro d hd
            simp only [decide_eq_false_iff_not, not_and]
            intro hk heq
            exact fe d hd hk m hm heq)
        unfold errorsAt
        rw [hc]
        have := errorsAt_returnDiags (methodsOf g.ast) m.returnType.sym
        unfold errorsAt at this
        rw [this, methodsOf_validated hg, List.filter_map, List.length_map]
        congr 1
        apply List.filter_congr
        intro m' _
        have hv := newKind_void (ast.imports.map Import.qname) (ast.declaredParcelables.map Import.qname) defined m'.returnType
        by_cases hvoid : m'.returnType.kind = .void
        · simp [Method.mapTypes, Ty.mapKind_sym, Ty.mapKind_kind, hvoid, hv.mpr hvoid]
        · have : ¬ Spec.C05.newKind (ast.imports.map Import.qname) (ast.declaredParcelables.map Import.qname) defined m'.returnType = .void :=
            fun h => hvoid (hv.mp h)
          have e1 : (Spec.C05.newKind (ast.imports.map Import.qname) (ast.declaredParcelables.map Import.qname) defined m'.returnType != .void) = true := by
            simpa [bne_iff_ne] using this
          have e2 : (m'.returnType.kind != .void) = true := by simpa [bne_iff_ne] using hvoid
          simp [Method.mapTypes, Ty.mapKind_sym, Ty.mapKind_kind, e1, e2]

end Aidl.Props.C10
