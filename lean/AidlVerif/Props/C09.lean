import AidlVerif.Spec.C09
import AidlVerif.Lemmas.Sort
import AidlVerif.Lemmas.Methods

/-!
# C09 — property theorems (about the model)
-/

namespace Aidl.Props.C09
open Aidl Aidl.Spec Aidl.Spec.C09

/-! ### the abstraction of the locals of `check_methods` after the methods `pre` -/

def fpcStep (acc : List (Nat × Method)) (m : Method) : List (Nat × Method) :=
  match m.transactCode with
  | some c => (match acc.lookup c with | some _ => acc | none => acc ++ [(c, m)])
  | none => acc

/-- `method_ids`: the first kept method of each explicit code -/
def firstPerCode (K : List Method) : List (Nat × Method) := K.foldl fpcStep []

def absState (pre : List Method) : IdState :=
  let K := kept pre
  { names := K.map (fun m => (m.name, m)),
    firstWithoutId := K.find? (fun p => p.transactCode.isNone),
    firstWithId := K.find? (fun p => p.transactCode.isSome),
    ids := firstPerCode K }

theorem keptAux_append (seen : List String) (pre : List Method) (m : Method) :
    keptAux seen (pre ++ [m]) =
      keptAux seen pre ++ (if seen.contains m.name || pre.any (fun p => p.name == m.name) then [] else [m]) := by
  induction pre generalizing seen with
  | nil =>
    simp [keptAux]
  | cons p ps ih =>
    simp only [List.cons_append, keptAux]
    split
    · rename_i hp
      rw [ih seen]
      simp only [List.any_cons]
      by_cases hpm : (p.name == m.name) = true
      · have : seen.contains m.name = true := by
          have : p.name = m.name := by simpa using hpm
          rw [← this]; exact hp
        have hm' : m.name ∈ seen := by simpa using this
        simp [hm']
      · have : (p.name == m.name) = false := by simpa using hpm
        simp [this]
    · rename_i hp
      rw [ih (p.name :: seen)]
      simp only [List.cons_append, List.any_cons, List.contains_cons]
      congr 2
      by_cases hpm : (p.name == m.name) = true
      · have e : m.name = p.name := by
          have : p.name = m.name := by simpa using hpm
          exact this.symm
        simp [e]
      · have h1 : (p.name == m.name) = false := by simpa using hpm
        have h2 : (m.name == p.name) = false := by
          have : ¬ p.name = m.name := by simpa using hpm
          simpa using fun h => this h.symm
        simp [h1, h2]

theorem find_keptAux (seen : List String) (pre : List Method) (n : String) (hn : seen.contains n = false) :
    (keptAux seen pre).find? (fun p => p.name == n) = pre.find? (fun p => p.name == n) := by
  induction pre generalizing seen with
  | nil => rfl
  | cons p ps ih =>
    simp only [keptAux]
    split
    · rename_i hp
      have hne : (p.name == n) = false := by
        by_cases h : p.name = n
        · subst h; rw [hn] at hp; cases hp
        · simpa using h
      simp [List.find?_cons, hne, ih seen hn]
    · simp only [List.find?_cons]
      by_cases h : (p.name == n) = true
      · simp [h]
      · have h' : (p.name == n) = false := by simpa using h
        simp only [h']
        apply ih
        simp only [List.contains_cons, hn, Bool.or_false]
        have : ¬ p.name = n := by simpa using h
        simpa using fun e => this e.symm

theorem find_kept (pre : List Method) (n : String) :
    (kept pre).find? (fun p => p.name == n) = pre.find? (fun p => p.name == n) :=
  find_keptAux [] pre n rfl

theorem lookup_names (K : List Method) (n : String) :
    (K.map (fun m => (m.name, m))).lookup n = K.find? (fun p => p.name == n) := by
  induction K with
  | nil => rfl
  | cons m ms ih =>
    simp only [List.map_cons, List.lookup_cons, List.find?_cons]
    by_cases h : n = m.name
    · subst h; simp
    · have h1 : (n == m.name) = false := by simpa using h
      have h2 : (m.name == n) = false := by simpa using fun e : m.name = n => h e.symm
      simp [h1, h2, ih]

theorem lookup_fold (acc : List (Nat × Method)) (K : List Method) (c : Nat) :
    (K.foldl fpcStep acc).lookup c =
      match acc.lookup c with
      | some x => some x
      | none => K.find? (fun p => p.transactCode == some c) := by
  induction K generalizing acc with
  | nil =>
    simp only [List.foldl_nil, List.find?_nil]
    cases List.lookup c acc <;> rfl
  | cons m ms ih =>
    simp only [List.foldl_cons, List.find?_cons]
    rw [ih]
    unfold fpcStep
    cases hm : m.transactCode with
    | none => simp
    | some c' =>
      simp only
      cases hl : acc.lookup c' with
      | some y =>
        simp only
        cases hc : acc.lookup c with
        | some x => simp
        | none =>
          have : c' ≠ c := by intro e; subst e; rw [hl] at hc; cases hc
          have hb : (c' == c) = false := by simpa using this
          simp [hb]
      | none =>
        simp only [List.lookup_append]
        cases hc : acc.lookup c with
        | some x => simp
        | none =>
          by_cases e : c = c'
          · subst e; simp [List.lookup_cons]
          · have e1 : (c == c') = false := by simpa using e
            have e2 : (c' == c) = false := by simpa using fun h : c' = c => e h.symm
            simp [List.lookup_cons, e1, e2]

theorem lookup_firstPerCode (K : List Method) (c : Nat) :
    (firstPerCode K).lookup c = K.find? (fun p => p.transactCode == some c) := by
  unfold firstPerCode; rw [lookup_fold]; rfl

theorem isEmpty_fold (acc : List (Nat × Method)) (K : List Method) :
    (K.foldl fpcStep acc).isEmpty = (acc.isEmpty && !(K.any (fun p => p.transactCode.isSome))) := by
  induction K generalizing acc with
  | nil => simp
  | cons m ms ih =>
    simp only [List.foldl_cons, List.any_cons]
    rw [ih]
    unfold fpcStep
    cases hm : m.transactCode with
    | none => simp
    | some c =>
      simp only [Option.isSome_some, Bool.true_or, Bool.not_true, Bool.and_false]
      cases hl : acc.lookup c with
      | some y =>
        have : acc.isEmpty = false := by cases acc <;> simp_all
        simp [this]
      | none => simp

theorem isEmpty_firstPerCode (K : List Method) :
    (firstPerCode K).isEmpty = !(K.any (fun p => p.transactCode.isSome)) := by
  unfold firstPerCode; rw [isEmpty_fold]; simp

theorem kept_snoc (pre : List Method) (m : Method) :
    kept (pre ++ [m]) = kept pre ++ (if pre.any (fun p => p.name == m.name) then [] else [m]) := by
  unfold kept; rw [keptAux_append]; simp

theorem find_none_any {α} (l : List α) (p : α → Bool) : l.find? p = none ↔ l.any p = false := by
  induction l with
  | nil => simp
  | cons x xs ih => by_cases h : p x = true <;> simp_all [List.find?_cons]


theorem absState_snoc_dup (pre : List Method) (m : Method)
    (hdup : pre.any (fun p => p.name == m.name) = true) : absState (pre ++ [m]) = absState pre := by
  unfold absState; rw [kept_snoc]; simp [hdup]

theorem absState_snoc_new (pre : List Method) (m : Method)
    (hnew : pre.any (fun p => p.name == m.name) = false) :
    absState (pre ++ [m]) =
      { names := (absState pre).names ++ [(m.name, m)],
        firstWithoutId := if m.transactCode.isNone && (absState pre).firstWithoutId.isNone then some m
                          else (absState pre).firstWithoutId,
        firstWithId := if m.transactCode.isSome && (absState pre).firstWithId.isNone then some m
                       else (absState pre).firstWithId,
        ids := fpcStep (absState pre).ids m } := by
  unfold absState
  rw [kept_snoc]
  simp only [hnew, Bool.false_eq_true, if_false, List.map_append, List.map_cons, List.map_nil,
    List.find?_append, firstPerCode, List.foldl_append, List.foldl_cons, List.foldl_nil]
  congr 1
  · cases h1 : (kept pre).find? (fun p => p.transactCode.isNone) <;>
      cases h2 : m.transactCode <;> simp [List.find?_cons, h2]
  · cases h1 : (kept pre).find? (fun p => p.transactCode.isSome) <;>
      cases h2 : m.transactCode <;> simp [List.find?_cons, h2]

theorem filter_isEmpty_any {α} (l : List α) (p : α → Bool) : (l.filter p).isEmpty = !(l.any p) := by
  induction l with
  | nil => rfl
  | cons x xs ih => by_cases h : p x = true <;> simp_all [List.filter_cons]

/-- one step of the id bookkeeping, from the abstract state, yields the abstract state of the
    longer prefix and exactly the specified reports -/
theorem step_spec (pre : List Method) (m : Method) :
    ∃ ds, checkMethodIdsStep (absState pre) m = .ok (absState (pre ++ [m]), ds)
      ∧ ds.map reportOf = stepSpec pre m := by
  unfold checkMethodIdsStep stepSpec
  have hlook : (absState pre).names.lookup m.name = pre.find? (fun p => p.name == m.name) := by
    unfold absState; simp only; rw [lookup_names, find_kept]
  rw [hlook]
  cases hf : pre.find? (fun p => p.name == m.name) with
  | some previous =>
    have hdup : pre.any (fun p => p.name == m.name) = true := by
      cases h : pre.any (fun p => p.name == m.name)
      · rw [(find_none_any _ _).mpr h] at hf; cases hf
      · rfl
    simp only [absState_snoc_dup pre m hdup]
    exact ⟨_, rfl, by simp [reportOf, mkDiag]⟩
  | none =>
    have hnew : pre.any (fun p => p.name == m.name) = false := (find_none_any _ _).mp hf
    rw [absState_snoc_new pre m hnew]
    have hF1 : (absState pre).firstWithId = ((kept pre).filter (fun p => p.transactCode.isSome)).head? := by
      unfold absState; simp only [List.head?_filter]
    have hF2 : (absState pre).firstWithoutId = ((kept pre).filter (fun p => p.transactCode.isNone)).head? := by
      unfold absState; simp only [List.head?_filter]
    have hI : (absState pre).ids.isEmpty = ((kept pre).filter (fun p => p.transactCode.isSome)).isEmpty := by
      unfold absState; simp only [isEmpty_firstPerCode, filter_isEmpty_any]
    have hL : ∀ c, (absState pre).ids.lookup c = (kept pre).find? (fun p => p.transactCode == some c) := by
      intro c; unfold absState; simp only [lookup_firstPerCode]
    simp only [hF1, hF2, hI]
    generalize ((kept pre).filter (fun p => p.transactCode.isSome)) = cK
    generalize ((kept pre).filter (fun p => p.transactCode.isNone)) = uK
    cases hm : m.transactCode with
    | none =>
      cases cK with
      | nil => cases uK <;> simp [fpcStep, hm]
      | cons c cs => cases uK <;> simp [fpcStep, hm, reportOf, mkDiag]
    | some code =>
      simp only [hL]
      cases hfind : (kept pre).find? (fun p => p.transactCode == some code) with
      | none =>
        cases cK with
        | nil => cases uK <;> simp [fpcStep, hm, hL, hfind, reportOf, mkDiag]
        | cons c cs => cases uK <;> simp [fpcStep, hm, hL, hfind, reportOf, mkDiag]
      | some prev =>
        cases cK with
        | nil => cases uK <;> simp [fpcStep, hm, hL, hfind, reportOf, mkDiag]
        | cons c cs => cases uK <;> simp [fpcStep, hm, hL, hfind, reportOf, mkDiag]


/-- **The id bookkeeping reports exactly what the specification says**, for every method list,
    starting after any prefix; and it never panics (`unwrap`s are safe). -/
theorem ids_spec (pre ms : List Method) :
    ∃ ds, idDiagsLoop (absState pre) ms = .ok ds ∧ ds.map reportOf = specAux pre ms := by
  induction ms generalizing pre with
  | nil => exact ⟨[], rfl, rfl⟩
  | cons m ms ih =>
    obtain ⟨d1, h1, e1⟩ := step_spec pre m
    obtain ⟨d2, h2, e2⟩ := ih (pre ++ [m])
    refine ⟨d1 ++ d2, ?_, ?_⟩
    · simp [idDiagsLoop, h1, h2]
    · simp [specAux, e1, e2]

theorem ids_spec_all (ms : List Method) :
    ∃ ds, idDiagsLoop {} ms = .ok ds ∧ ds.map reportOf = spec ms :=
  ids_spec [] ms

/-- the selection predicate of the oracle -/
def sel (ms : List Method) (d : Diag) : Bool :=
  d.kind = .error && (idRanges ms).contains d.range && !d.related.isEmpty

/-- hypotheses on ranges (decidable; evaluated by the harness on every case): among everything
    pushed for the file, the Errors with related information on a method's name or code range are
    exactly the id diagnostics, and these come in ascending position -/
def Fresh (g : Groups) (ids : List Diag) : Prop :=
  g.all.filter (sel (methodsOf g.ast)) = ids ∧ SortedBy (fun d => d.range.start.off) ids

instance (g : Groups) (ids : List Diag) : Decidable (Fresh g ids) := by
  unfold Fresh SortedBy; infer_instance

/-- **C09 for the model.** -/
theorem holds (ho : HashOrder) (defined : Defined) (fr out : FileResult)
    (h : validateFile ho defined fr = .ok out)
    (fresh : ∀ ast g ids, fr.ast = some ast → validateGroups ho defined fr.diags ast = .ok g →
      idDiagsLoop {} (methodsOf g.ast) = .ok ids → Fresh g ids) :
    holdsFile out = true := by
  unfold validateFile at h
  cases hast : fr.ast with
  | none =>
    simp only [hast] at h
    cases h
    simp [holdsFile, hast]
  | some ast =>
    simp only [hast] at h
    cases hg : validateGroups ho defined fr.diags ast with
    | error e => simp [hg] at h
    | ok g =>
      simp only [hg] at h
      cases h
      obtain ⟨ids, hids, hspec⟩ := ids_spec_all (methodsOf g.ast)
      obtain ⟨hsel, hsorted⟩ := fresh ast g ids hast hg hids
      simp only [holdsFile, beq_iff_eq]
      have : (sortDiags g.all).filter (sel (methodsOf g.ast)) = ids := by
        unfold sortDiags
        rw [stableSortBy_filter_comm, hsel]
        exact stableSortBy_of_sorted _ _ hsorted
      unfold sel at this
      rw [this, hspec]

/-- non-vacuity and the statement's own example shapes, by evaluation -/
example :
    let r (n : Nat) : Range := ⟨⟨n, 1, n⟩, ⟨n + 1, 1, n + 1⟩⟩
    let mk (name : String) (code : Option Nat) (n : Nat) : Method :=
      { oneway := false, name := name, returnType := .mk "void" .void [] (r n) (r n), args := [],
        annotations := [], transactCode := code, doc := none, sym := r (n + 2), full := r n,
        transactCodeRange := r (n + 4), onewayRange := r n }
    -- a(), a()=1, b()=1, c() : duplicate name at the 2nd; mixed at the 3rd (pointing to the 1st); nothing at the 4th
    spec [mk "a" none 0, mk "a" (some 1) 10, mk "b" (some 1) 20, mk "c" none 30]
      = [(r 12, r 2), (r 24, r 4)] := by
  decide

end Aidl.Props.C09
