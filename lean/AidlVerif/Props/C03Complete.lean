import AidlVerif.Props.LrCompleteCert
import AidlVerif.Props.LrCompleteDriver
import AidlVerif.Props.ParseTerm
import AidlVerif.Props.LrHist

/-!
# C03, the other half — for every text: well-formed under the grammar ⇒ accepted, no error recovery

`LrSound.accepted_derives` (with `ParseTyped.accepted_clean_derives`) is "accepted without error ⇒
the tokens are derivable". This is the converse: if the text lexes to a token sequence that is
derivable from the accepting production of the grammar of the generated parser, the model of
`add_content` returns a result of an ACCEPTING run in which error recovery never ran — no parse error
is reported, no `Invalid …` recovery diagnostic is pushed. Together: on the token level the syntax
verdict of the model is exactly derivability in the grammar extracted from the generated parser.
-/

namespace Aidl.Props.C03Complete
open Aidl Aidl.Lr Aidl.Actions Aidl.Lexer Aidl.Props.LrSound Aidl.Props.LrComplete Aidl.Props.LrInv

/-- the token columns of a text (`none`: an invalid token, a token without a column, or the step bound) -/
def lexColsOf (T : Tables) : Nat → List Char → Nat → Option (List Nat)
  | 0, _, _ => none
  | f + 1, i, p =>
    match Lexer.next T.lex (i.length + 1) i p with
    | .eof => some []
    | .invalid _ => none
    | .token t r =>
      match T.tokToCol.lookup t.index with
      | none => none
      | some c => (lexColsOf T f r t.stop).map (c :: ·)

theorem lexColsOf_sound (T : Tables) : ∀ (f : Nat) (i : List Char) (p : Nat) (w : List Nat),
    lexColsOf T f i p = some w → LexCols T i p w := by
  intro f
  induction f with
  | zero => intro i p w h; simp [lexColsOf] at h
  | succ f ih =>
    intro i p w h
    unfold lexColsOf at h
    cases hn : Lexer.next T.lex (i.length + 1) i p with
    | eof => rw [hn] at h; cases h; exact LexCols.eof hn
    | invalid l => rw [hn] at h; cases h
    | token t r =>
      rw [hn] at h
      dsimp only at h
      cases hc : T.tokToCol.lookup t.index with
      | none => rw [hc] at h; cases h
      | some c =>
        rw [hc] at h
        dsimp only at h
        cases hr : lexColsOf T f r t.stop with
        | none => rw [hr] at h; cases h
        | some w' =>
          rw [hr] at h
          cases h
          exact LexCols.tok hn hc (ih r t.stop w' hr)

theorem finishE_stop (env : Env) (id : String) (s : St) (o : Outcome) (r : FileResult)
    (h : finishE env id s o = .ok r) : ¬ Stops o := by
  intro hs
  unfold finishE at h
  cases o <;> first | exact hs.elim | cases h

/-- **For every text** (tables and certificates of this run): if its tokens are derivable from the
    accepting production, the model's `add_content` returns the result of an accepting run in which
    error recovery never ran. -/
theorem wellformed_accepted (env : Env) (id text : String) (hE : EnvOk env text.toList) (w : List Nat)
    (hl : lexColsOf Driver.Parse.tables (text.toList.length + 1) text.toList 0 = some w)
    (hd : Derives Driver.Parse.tables w) :
    ∃ r v, addContentE Driver.Parse.tables env id text = .ok r
      ∧ (parseLoop Driver.Parse.tables env { input := text.toList } (parseFuel text)).2 = .accept v
      ∧ (parseLoop Driver.Parse.tables env { input := text.toList } (parseFuel text)).1.recovered = false := by
  obtain ⟨r, hr⟩ := ParseTerm.addContent_total env id text hE
  have hc := parse_complete_gen Driver.Parse.tables env its itemFacts_run text.toList w (parseFuel text)
    (lexColsOf_sound _ _ _ _ _ hl) hd
  have hr' := hr
  unfold addContentE at hr'
  rcases hc with hstop | ⟨v, hv, hrec⟩
  · exact absurd hstop (finishE_stop env id _ _ r hr')
  · exact ⟨r, v, hr, hv, hrec⟩

/-! ### exactness on the text's own tokens -/

def errColCheck (T : Tables) : Bool :=
  (List.range T.action.size).all fun q =>
    match asReduce (errorAction T q) with
    | some p => match T.prods[p]? with
      | some prod => !prod.accept
      | none => true
    | none => true

theorem errColOk_of_check (T : Tables) (h : errColCheck T = true) : LrHist.ErrColOk T := by
  intro q p prod hr hp
  have hq : q < T.action.size := by
    have hne : errorAction T q ≠ 0 := LrComplete.asReduce_ne hr
    unfold errorAction at hne
    exact (LrSafe.actionAt_ne_zero T hne).choose_spec.2.1
  have := (List.all_eq_true.mp h) q (List.mem_range.mpr hq)
  simp only [hr, hp, Bool.not_eq_true'] at this
  exact this

set_option maxRecDepth 1000000 in
theorem errCol_run : LrHist.ErrColOk Driver.Parse.tables := errColOk_of_check _ (by decide +kernel)

/-- **Reported free of syntax errors ⇒ the text is well-formed under the grammar** (every text):
    if the model's `add_content` returns a tree and no Error diagnostic, the token sequence OF THE TEXT
    is derivable from the accepting production. -/
theorem clean_tree_derives (env : Env) (id text : String) (hE : EnvOk env text.toList) (w : List Nat)
    (hl : lexColsOf Driver.Parse.tables (text.toList.length + 1) text.toList 0 = some w)
    (r : FileResult) (h : addContentE Driver.Parse.tables env id text = .ok r)
    (ht : r.ast.isSome = true) (hno : ¬ Typed.hasError r.diags) : Derives Driver.Parse.tables w := by
  have h' := h
  unfold addContentE at h'
  obtain ⟨⟨v, hv⟩, hd⟩ := ParseTyped.finishE_tree env id _ _ r h' ht
  have h2 := LrTyped.parse_end_ok Driver.Parse.tables LrSafe.cert LrTyped.tt env
    (LrSafe.certFacts _ _ LrSafe.cert_ok) ParseTyped.tyFacts_run text.toList (parseFuel text)
  rw [hv] at h2
  have hrec : (parseLoop Driver.Parse.tables env { input := text.toList } (parseFuel text)).1.recovered = false := by
    cases hr : (parseLoop Driver.Parse.tables env { input := text.toList } (parseFuel text)).1.recovered with
    | false => rfl
    | true => exact absurd (by rw [hd]; exact h2.2 hr) hno
  have hh := LrHist.hist_is_text Driver.Parse.tables env errCol_run text.toList w (parseFuel text) v
    (lexColsOf_sound _ _ _ _ _ hl) hv hrec
  have hder := ParseSound.accepted_derives_run env text (parseFuel text) v hv hrec
  rw [hh] at hder
  exact hder

/-- **Failure is never silent, in terms of the grammar** (every text that lexes): if the token
    sequence of the text is NOT derivable from the accepting production, the result of the model's
    `add_content` carries an Error diagnostic. -/
theorem malformed_reports_error (env : Env) (id text : String) (hE : EnvOk env text.toList) (w : List Nat)
    (hl : lexColsOf Driver.Parse.tables (text.toList.length + 1) text.toList 0 = some w)
    (hnd : ¬ Derives Driver.Parse.tables w)
    (r : FileResult) (h : addContentE Driver.Parse.tables env id text = .ok r) : Typed.hasError r.diags := by
  apply Classical.byContradiction
  intro hno
  cases hast : r.ast with
  | none => exact hno (ParseTyped.never_silent env id text hE r h hast)
  | some a => exact hnd (clean_tree_derives env id text hE w hl r h (by rw [hast]; rfl) hno)

theorem lexColsOf_complete (T : Tables) (hL : LrTerm.LexProg T) {i : List Char} {p : Nat} {w : List Nat}
    (h : LexCols T i p w) : ∀ f, i.length < f → lexColsOf T f i p = some w := by
  induction h with
  | eof hn =>
    intro f hf
    cases f with
    | zero => omega
    | succ f => unfold lexColsOf; rw [hn]
  | tok hn hc _ ih =>
    rename_i i p t r c w
    intro f hf
    cases f with
    | zero => omega
    | succ f =>
      unfold lexColsOf
      rw [hn]
      dsimp only
      rw [hc]
      dsimp only
      have := hL _ _ _ _ _ hn
      rw [ih f (by omega)]
      rfl

/-- **For every text, one of the two**: its token sequence is derivable from the accepting production
    of the grammar — or the result of the model's `add_content` carries an Error diagnostic. (No
    assumption that the text lexes: an unlexable text cannot be accepted without an Error.) -/
theorem derivable_or_error (env : Env) (id text : String) (hE : EnvOk env text.toList)
    (r : FileResult) (h : addContentE Driver.Parse.tables env id text = .ok r) :
    (∃ w, lexColsOf Driver.Parse.tables (text.toList.length + 1) text.toList 0 = some w ∧ Derives Driver.Parse.tables w)
      ∨ Typed.hasError r.diags := by
  by_cases hno : Typed.hasError r.diags
  · exact Or.inr hno
  · left
    cases hast : r.ast with
    | none => exact absurd (ParseTyped.never_silent env id text hE r h hast) hno
    | some a =>
      have h' := h
      unfold addContentE at h'
      obtain ⟨⟨v, hv⟩, hd⟩ := ParseTyped.finishE_tree env id _ _ r h' (by rw [hast]; rfl)
      have h2 := LrTyped.parse_end_ok Driver.Parse.tables LrSafe.cert LrTyped.tt env
        (LrSafe.certFacts _ _ LrSafe.cert_ok) ParseTyped.tyFacts_run text.toList (parseFuel text)
      rw [hv] at h2
      have hrec : (parseLoop Driver.Parse.tables env { input := text.toList } (parseFuel text)).1.recovered = false := by
        cases hr : (parseLoop Driver.Parse.tables env { input := text.toList } (parseFuel text)).1.recovered with
        | false => rfl
        | true => exact absurd (by rw [hd]; exact h2.2 hr) hno
      have hlc := LrHist.accepted_lexcols Driver.Parse.tables env errCol_run text.toList (parseFuel text) v hv hrec
      have hder := ParseSound.accepted_derives_run env text (parseFuel text) v hv hrec
      exact ⟨_, lexColsOf_complete _ LrTerm.lexProg_run hlc _ (Nat.lt_succ_self _), hder⟩

end Aidl.Props.C03Complete
