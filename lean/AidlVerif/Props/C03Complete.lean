import AidlVerif.Props.LrCompleteCert
import AidlVerif.Props.LrCompleteDriver
import AidlVerif.Props.ParseTerm

/-!
# C03, the other half — for every text: well-formed under the grammar ⇒ accepted, no error recovery

`LrSound.accepted_derives` (with `ParseTyped.accepted_clean_derives`) is "accepted without error ⇒
the tokens are derivable". This is the converse: if the text lexes to a token sequence that is
derivable from the accepting production of the grammar of the generated parser, the model of
`add_content` returns a result of an ACCEPTING run in which error recovery never ran — no parse error
is reported, no `Invalid …` recovery diagnostic is pushed. Together: on the token level the syntax
verdict of the model is exactly derivability in the grammar extracted from the generated parser.
-/

namespace Aidl.Props.C03Complete
open Aidl Aidl.Lr Aidl.Actions Aidl.Lexer Aidl.Props.LrSound Aidl.Props.LrComplete Aidl.Props.LrInv

/-- the token columns of a text (`none`: an invalid token, a token without a column, or the step bound) -/
def lexColsOf (T : Tables) : Nat → List Char → Nat → Option (List Nat)
  | 0, _, _ => none
  | f + 1, i, p =>
    match Lexer.next T.lex (i.length + 1) i p with
    | .eof => some []
    | .invalid _ => none
    | .token t r =>
      match T.tokToCol.lookup t.index with
      | none => none
      | some c => (lexColsOf T f r t.stop).map (c :: ·)

theorem lexColsOf_sound (T : Tables) : ∀ (f : Nat) (i : List Char) (p : Nat) (w : List Nat),
    lexColsOf T f i p = some w → LexCols T i p w := by
  intro f
  induction f with
  | zero => intro i p w h; simp [lexColsOf] at h
  | succ f ih =>
    intro i p w h
    unfold lexColsOf at h
    cases hn : Lexer.next T.lex (i.length + 1) i p with
    | eof => rw [hn] at h; cases h; exact LexCols.eof hn
    | invalid l => rw [hn] at h; cases h
    | token t r =>
      rw [hn] at h
      dsimp only at h
      cases hc : T.tokToCol.lookup t.index with
      | none => rw [hc] at h; cases h
      | some c =>
        rw [hc] at h
        dsimp only at h
        cases hr : lexColsOf T f r t.stop with
        | none => rw [hr] at h; cases h
        | some w' =>
          rw [hr] at h
          cases h
          exact LexCols.tok hn hc (ih r t.stop w' hr)

theorem finishE_stop (env : Env) (id : String) (s : St) (o : Outcome) (r : FileResult)
    (h : finishE env id s o = .ok r) : ¬ Stops o := by
  intro hs
  unfold finishE at h
  cases o <;> first | exact hs.elim | cases h

/-- **For every text** (tables and certificates of this run): if its tokens are derivable from the
    accepting production, the model's `add_content` returns the result of an accepting run in which
    error recovery never ran. -/
theorem wellformed_accepted (env : Env) (id text : String) (hE : EnvOk env text.toList) (w : List Nat)
    (hl : lexColsOf Driver.Parse.tables (text.toList.length + 1) text.toList 0 = some w)
    (hd : Derives Driver.Parse.tables w) :
    ∃ r v, addContentE Driver.Parse.tables env id text = .ok r
      ∧ (parseLoop Driver.Parse.tables env { input := text.toList } (parseFuel text)).2 = .accept v
      ∧ (parseLoop Driver.Parse.tables env { input := text.toList } (parseFuel text)).1.recovered = false := by
  obtain ⟨r, hr⟩ := ParseTerm.addContent_total env id text hE
  have hc := parse_complete_gen Driver.Parse.tables env its itemFacts_run text.toList w (parseFuel text)
    (lexColsOf_sound _ _ _ _ _ hl) hd
  have hr' := hr
  unfold addContentE at hr'
  rcases hc with hstop | ⟨v, hv, hrec⟩
  · exact absurd hstop (finishE_stop env id _ _ r hr')
  · exact ⟨r, v, hr, hv, hrec⟩

end Aidl.Props.C03Complete
