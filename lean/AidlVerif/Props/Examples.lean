import AidlVerif.Props.C03Complete
import AidlVerif.Props.C02Layout
import AidlVerif.Props.ParseSound
import AidlVerif.Props.PipelineTotal

/-!
# The hypotheses of the parse-level theorems are satisfiable: concrete instances, evaluated by the kernel

Each theorem below instantiates one of the for-all theorems on a concrete text; the decidable
hypotheses are discharged by kernel evaluation of the model (lexer, LR driver, actions) on that text.
They are tests, labelled as tests: their only purpose is to show that the theorems are not vacuous.
-/

namespace Aidl.Props.Examples
open Aidl Aidl.Lr Aidl.Actions Aidl.Props.LrSound Aidl.Props.LrInv

def doc1 : String := "package a.b;\nimport c.D;\ninterface I { void f(in int x, out D[] y) = 3; const int K = 1; }"
def doc2 : String := "package a . b ; // layout\n import c.D;interface\tI{void f(in int x,out D [ ] y)=3;/* c */const int K=1;}"

/-- a line/column lookup defined everywhere (the real one is an input of the model) -/
def envOf (t : String) : Env := { text := t.toList, lineCol := fun n => some (1, n + 1) }

theorem envOf_ok (t : String) : EnvOk (envOf t) t.toList := ⟨rfl, fun _ _ => rfl⟩

set_option maxRecDepth 1000000 in
/-- the two layouts have the same token sequence … -/
theorem ex_samelex : lexToks Driver.Parse.tables (doc1.toList.length + 1) doc1.toList 0
    = lexToks Driver.Parse.tables (doc2.toList.length + 1) doc2.toList 0
    ∧ (lexToks Driver.Parse.tables (doc1.toList.length + 1) doc1.toList 0).isSome = true := by decide +kernel

/-- … so `layout_independent` applies: both parse, to trees equal after erasure -/
theorem ex_layout : ∃ r1 r2, addContentE Driver.Parse.tables (envOf doc1) "1" doc1 = .ok r1
    ∧ addContentE Driver.Parse.tables (envOf doc2) "2" doc2 = .ok r2
    ∧ r1.ast.map Erase.erAidl = r2.ast.map Erase.erAidl := by
  cases h : lexToks Driver.Parse.tables (doc1.toList.length + 1) doc1.toList 0 with
  | none => have := ex_samelex.2; rw [h] at this; cases this
  | some x =>
    exact C02Layout.layout_independent (envOf doc1) (envOf doc2) "1" "2" doc1 doc2 (envOf_ok doc1) (envOf_ok doc2) x h
      (by rw [← ex_samelex.1]; exact h)

set_option maxRecDepth 1000000 in
/-- the model accepts `doc1` without error recovery (kernel evaluation of the whole parser model) -/
theorem ex_accepts :
    (match (parseLoop Driver.Parse.tables (envOf doc1) { input := doc1.toList } (parseFuel doc1)) with
     | (s, .accept _) => !s.recovered
     | _ => false) = true := by decide +kernel

/-- hence (soundness) its tokens are derivable in the grammar of the tables: `Derives` is inhabited -/
theorem ex_derives : ∃ w, Derives Driver.Parse.tables w ∧ 30 < w.length := by
  have h := ex_accepts
  generalize hp : parseLoop Driver.Parse.tables (envOf doc1) { input := doc1.toList } (parseFuel doc1) = r at h
  obtain ⟨s, o⟩ := r
  cases o with
  | accept v =>
    have hrec : s.recovered = false := by simpa using h
    have hd := ParseSound.accepted_derives_run (envOf doc1) doc1 (parseFuel doc1) v (by rw [hp]) (by rw [hp]; exact hrec)
    rw [hp] at hd
    refine ⟨s.hist, hd, ?_⟩
    have : (30 < s.hist.length) = (30 < (parseLoop Driver.Parse.tables (envOf doc1) { input := doc1.toList } (parseFuel doc1)).1.hist.length) := by rw [hp]
    rw [this]
    decide +kernel
  | _ => cases h

set_option maxRecDepth 1000000 in
/-- the token columns of `doc2` are those the driver shifted for `doc1` (same tokens, other layout) -/
theorem ex_cols : C03Complete.lexColsOf Driver.Parse.tables (doc2.toList.length + 1) doc2.toList 0
    = some (parseLoop Driver.Parse.tables (envOf doc1) { input := doc1.toList } (parseFuel doc1)).1.hist := by decide +kernel

/-- completeness applied: `doc2` — never run through the model here — is accepted without error recovery -/
theorem ex_complete : ∃ r v, addContentE Driver.Parse.tables (envOf doc2) "2" doc2 = .ok r
    ∧ (parseLoop Driver.Parse.tables (envOf doc2) { input := doc2.toList } (parseFuel doc2)).2 = .accept v
    ∧ (parseLoop Driver.Parse.tables (envOf doc2) { input := doc2.toList } (parseFuel doc2)).1.recovered = false := by
  have h := ex_accepts
  generalize hp : parseLoop Driver.Parse.tables (envOf doc1) { input := doc1.toList } (parseFuel doc1) = r at h
  obtain ⟨s, o⟩ := r
  cases o with
  | accept v =>
    have hrec : s.recovered = false := by simpa using h
    have hd := ParseSound.accepted_derives_run (envOf doc1) doc1 (parseFuel doc1) v (by rw [hp]) (by rw [hp]; exact hrec)
    have hc := ex_cols
    exact C03Complete.wellformed_accepted (envOf doc2) "2" doc2 (envOf_ok doc2) _ hc hd
  | _ => cases h

set_option maxRecDepth 1000000 in
/-- `doc1` comes back with a tree … -/
theorem ex_tree :
    (match addContentE Driver.Parse.tables (envOf doc1) "1" doc1 with
     | .ok r => r.ast.isSome
     | .error _ => false) = true := by decide +kernel

/-- … and the whole pipeline theorems apply to it: it validates (any hash order, here the identity, empty
    project) and the C05 / C08 oracles hold of the outcome — with no hypothesis evaluated -/
theorem ex_pipeline : ∃ fr out, addContentE Driver.Parse.tables (envOf doc1) "1" doc1 = .ok fr
    ∧ fr.ast.isSome = true
    ∧ validateFile HashOrder.id [] fr = .ok out
    ∧ Spec.C05.holdsFile [] fr out = true ∧ Spec.C08.holdsFile out = true := by
  obtain ⟨fr, hfr⟩ := PipelineTotal.every_text_has_a_result (envOf doc1) "1" doc1 (envOf_ok doc1)
  have ht := ex_tree
  rw [hfr] at ht
  obtain ⟨out, hout⟩ := C01.validateFile_ok HashOrder.id [] fr
    (fun a ha => PipelineTotal.itemWF_arityOK a (ParseTyped.tree_arities (envOf doc1) "1" doc1 (envOf_ok doc1) fr a hfr ha))
  exact ⟨fr, out, hfr, ht, hout,
    PipelineTotal.C05_holds_of_parsed HashOrder.id [] fr out ⟨_, _, _, envOf_ok doc1, hfr⟩ hout,
    PipelineTotal.C08_holds_of_parsed HashOrder.id [] fr out ⟨_, _, _, envOf_ok doc1, hfr⟩ hout⟩

end Aidl.Props.Examples
