import AidlVerif.Props.LexRuns
import AidlVerif.Props.C02Layout

/-!
# A declarative lexical specification, and "whatever the layout" without evaluating the lexer

`Skips s r`: `r` is what is left of `s` after white-space runs, line comments and block comments.
`TokenAt s j w rest`: `s` begins with the lexeme `w` of entry `j` — a word (identifier or reserved word), a
punctuation character, a string literal, an annotation name, an integer or other number-like run, `-` or `.` — and `rest` follows, in a way
that ends the lexeme there. `LexesTo s toks`: `s` is lexemes separated by skipped text, up to the end.
These are relations on TEXTS: no table, no matcher, no step bound appears in them apart from the entry numbers.

* `N_skips`, `N_token`: the lexer of this run's table does what the relations say.
* `lexToks_of_lexesTo`: a text in `LexesTo s toks` lexes to exactly `toks` and ends without an invalid token.
* `relayout_same_tree` (C02): TWO TEXTS THAT ARE LAYOUTS OF THE SAME LEXEMES — whatever white space, line endings
  and comments separate them — give trees that are equal up to positions and documentation. The hypothesis of
  `layout_independent` (two evaluations of the lexer agree) is discharged by the relations.
-/

namespace Aidl.Props.LexSpec
open Aidl Aidl.Lr Aidl.Actions Aidl.Erase Aidl.Props.LrInv
open Aidl.Regex Aidl.Lexer Aidl.Javadoc Aidl.Props.JavadocTotal Aidl.Props.LexerBounds Aidl.Props.LexerProgress
  Aidl.Props.RegexSound Aidl.Props.JavadocSpec Aidl.Props.SkipEntries Aidl.Props.LexSkip Aidl.Props.LexerFuel Aidl.Props.LexIdent
  Aidl.Props.LexTokens Aidl.Props.LexNumbers Aidl.Props.LexRuns

/-- the lexer at `s`, with the step bound the parser model uses -/
def N (s : List Char) (p : Nat) : LexResult := next Gen.lexTable (s.length + 1) s p

theorem N_eq (s : List Char) (p f : Nat) (h : s.length < f) : next Gen.lexTable f s p = N s p :=
  next_fuel _ f (s.length + 1) s p h (Nat.lt_succ_self _)

/-! ### what is skipped -/

inductive Skips : List Char → List Char → Prop
  | done (s : List Char) : Skips s s
  | ws (run rest r : List Char) : run ≠ [] → (∀ c ∈ run, isWsChar c = true) → (∀ c t, rest = c :: t → isWsChar c = false) →
      Skips rest r → Skips (run ++ rest) r
  | line (t r : List Char) : Skips ((t.dropWhile isNotEol).dropWhile isEol) r → Skips ('/' :: '/' :: t) r
  | block (u rest r : List Char) : firstClose false u 0 = some u.length → Skips rest r → Skips ('/' :: '*' :: (u ++ rest)) r

theorem length_dropWhile_le {α} (q : α → Bool) (l : List α) : (l.dropWhile q).length ≤ l.length :=
  (List.dropWhile_sublist q).length_le

theorem Skips.length_le {s r : List Char} (h : Skips s r) : r.length ≤ s.length := by
  induction h with
  | done s => exact Nat.le_refl _
  | ws run rest r _ _ _ _ ih => rw [List.length_append]; omega
  | line t r _ ih =>
    have h1 := length_dropWhile_le isEol (t.dropWhile isNotEol)
    have h2 := length_dropWhile_le isNotEol t
    simp only [List.length_cons]; omega
  | block u rest r _ _ ih => simp only [List.length_cons, List.length_append]; omega

theorem N_skips {s r : List Char} (h : Skips s r) : ∀ p, ∃ q, N s p = N r q := by
  induction h with
  | done s => intro p; exact ⟨p, rfl⟩
  | ws run rest r hne hrun hout _ ih =>
    intro p
    obtain ⟨q, hq⟩ := ih (p + utf8Len run)
    refine ⟨q, ?_⟩
    rw [← hq]
    unfold N
    rw [next_skips_ws (run ++ rest).length run rest p hne hrun hout (Nat.le_succ _)]
    apply N_eq
    rw [List.length_append]
    have : 0 < run.length := List.length_pos_iff.mpr hne
    omega
  | line t r _ ih =>
    intro p
    obtain ⟨q, hq⟩ := ih (p + (2 + utf8Len (t.takeWhile isNotEol) + utf8Len ((t.dropWhile isNotEol).takeWhile isEol)))
    refine ⟨q, ?_⟩
    rw [← hq]
    unfold N
    have hlen : ('/' :: '/' :: t).length + 1 = (t.length + 1 + 1) + 1 := by simp
    rw [hlen, next_skips_line (t.length + 1 + 1) t p (by omega)]
    apply N_eq
    have h1 := length_dropWhile_le isEol (t.dropWhile isNotEol)
    have h2 := length_dropWhile_le isNotEol t
    omega
  | block u rest r hclose _ ih =>
    intro p
    obtain ⟨q, hq⟩ := ih (p + utf8Len ('/' :: '*' :: u))
    refine ⟨q, ?_⟩
    rw [← hq]
    unfold N
    rw [next_skips_block ('/' :: '*' :: (u ++ rest)).length u rest p hclose (Nat.le_succ _)]
    apply N_eq
    simp only [List.length_cons, List.length_append]
    omega

/-! ### one lexeme -/

inductive TokenAt : List Char → Nat → List Char → List Char → Prop
  /-- an identifier or reserved word: the entry is the last one that matches the whole word -/
  | word (c : Char) (t rest : List Char) (j : Nat) :
      inCls identStartCls c = true → (∀ d ∈ t, isIdentPart d = true) → (∀ d u, rest = d :: u → isIdentPart d = false) →
      j < Gen.lexTable.size → fullOn j (c :: t) = true → (∀ i, i < Gen.lexTable.size → fullOn i (c :: t) = true → i ≤ j) →
      TokenAt (c :: t ++ rest) j (c :: t) rest
  | punct (j a : Nat) (c : Char) (rest : List Char) : (j, a) ∈ punctEntries → c.toNat = a → TokenAt (c :: rest) j [c] rest
  | str (body rest : List Char) : (∀ d ∈ body, isStrBody d = true) →
      TokenAt ('"' :: body ++ '"' :: rest) strIdx ('"' :: body ++ ['"']) rest
  | ann (c : Char) (t rest : List Char) :
      inCls identStartCls c = true → (∀ d ∈ t, isIdentPart d = true) → (∀ d u, rest = d :: u → isIdentPart d = false) →
      TokenAt ('@' :: c :: t ++ rest) annIdx ('@' :: c :: t) rest
  | int (c : Char) (t rest : List Char) :
      isDigit c = true → (∀ d ∈ t, isDigit d = true) → (∀ d u, rest = d :: u → inCls floatChars d = false) →
      TokenAt (c :: t ++ rest) intIdx (c :: t) rest
  /-- a number-like run (INTEGER, FLOAT, or `-` / `.` alone): a sign, digit or dot and the maximal run of characters
      a FLOAT can use; the entry is the last one that matches the whole run -/
  | number (c : Char) (t rest : List Char) (j : Nat) :
      inCls floatStart c = true → (∀ d u, rest = d :: u → inCls floatChars d = false) →
      j < Gen.lexTable.size → fullOn j (c :: t) = true → (∀ i, i < Gen.lexTable.size → fullOn i (c :: t) = true → i ≤ j) →
      TokenAt (c :: t ++ rest) j (c :: t) rest
  /-- `-` or `.` not followed by what could continue a number -/
  | shared (j a o : Nat) (rest : List Char) : (j, a, o) ∈ sharedEntries →
      (∀ d u, rest = d :: u → inCls (firstCls (deriv Gen.lexTable[o]!.1 (Char.ofNat a))) d = false) →
      TokenAt (Char.ofNat a :: rest) j [Char.ofNat a] rest

theorem TokenAt.shape {s w rest : List Char} {j : Nat} (h : TokenAt s j w rest) : s = w ++ rest ∧ w ≠ [] := by
  cases h <;> simp

theorem N_token {s w rest : List Char} {j : Nat} (h : TokenAt s j w rest) (p : Nat) :
    N s p = .token { start := p, index := j, text := String.ofList w, stop := p + utf8Len w } rest := by
  unfold N
  cases h with
  | word c t rest j hc ht hout hj hjf hmax =>
    obtain ⟨j', hj', hjf', hmax', hnext⟩ := next_word (c :: t ++ rest).length c t rest p hc ht hout (Nat.le_refl _)
    have : j' = j := Nat.le_antisymm (hmax j' hj' hjf') (hmax' j hj hjf)
    rw [hnext, this]
  | punct j a c rest hmem hc =>
    rw [next_punct j a hmem c hc (c :: rest).length rest p, utf8Len_cons, utf8Len_nil, Nat.add_zero]
  | str body rest hbody =>
    rw [next_string ('"' :: body ++ '"' :: rest).length body rest p hbody (by simp only [List.cons_append, List.length_cons]; omega)]
    have hsz : ('"' : Char).utf8Size = 1 := by decide
    have : utf8Len ('"' :: body ++ ['"']) = 1 + utf8Len body + 1 := by
      rw [List.cons_append, utf8Len_cons, utf8Len_append, utf8Len_cons, utf8Len_nil, hsz]; omega
    rw [this]
    congr 2
    omega
  | ann c t rest hc ht hout =>
    rw [next_annotation ('@' :: c :: t ++ rest).length c t rest p hc ht hout
      (by simp only [List.cons_append, List.length_cons]; omega)]
    have hsz : ('@' : Char).utf8Size = 1 := by decide
    have : utf8Len ('@' :: c :: t) = 1 + c.utf8Size + utf8Len t := by rw [utf8Len_cons, utf8Len_cons, hsz]; omega
    rw [this]
    congr 2
    omega
  | int c t rest hc ht hout =>
    rw [next_integer (c :: t ++ rest).length c t rest p hc ht hout (Nat.le_refl _)]
  | number c t rest j hc hout hj hjf hmax =>
    obtain ⟨j', hj', hjf', hmax', hnext⟩ := next_numberlike (c :: t ++ rest).length c t rest p hc hout (Nat.le_refl _) j hj hjf
    have : j' = j := Nat.le_antisymm (hmax j' hj' hjf') (hmax' j hj hjf)
    rw [hnext, this]
  | shared j a o rest hmem hrest =>
    rw [next_after_char j a o hmem (Char.ofNat a :: rest).length rest p hrest, utf8Len_cons, utf8Len_nil, Nat.add_zero]

/-! ### a whole text -/

inductive LexesTo : List Char → List (Nat × String) → Prop
  | eof (s : List Char) : Skips s [] → LexesTo s []
  | tok (s s' w rest : List Char) (j : Nat) (toks : List (Nat × String)) :
      Skips s s' → TokenAt s' j w rest → LexesTo rest toks → LexesTo s ((j, String.ofList w) :: toks)

theorem tables_lex : Driver.Parse.tables.lex = Gen.lexTable := rfl

/-- **a text that is lexemes separated by skipped text lexes to exactly those lexemes**, without an invalid token -/
theorem lexToks_of_lexesTo {s : List Char} {toks : List (Nat × String)} (h : LexesTo s toks) :
    ∀ (f p : Nat), s.length < f → lexToks Driver.Parse.tables f s p = some (toks, true) := by
  induction h with
  | eof s hs =>
    intro f p hf
    cases f with
    | zero => omega
    | succ f =>
      obtain ⟨q, hq⟩ := N_skips hs p
      unfold lexToks
      rw [tables_lex]
      have : next Gen.lexTable (s.length + 1) s p = .eof := by
        have h1 : N s p = N [] q := hq
        rw [show next Gen.lexTable (s.length + 1) s p = N s p from rfl, h1]
        rfl
      rw [this]
  | tok s s' w rest j toks hs ht _ ih =>
    intro f p hf
    cases f with
    | zero => omega
    | succ f =>
      obtain ⟨q, hq⟩ := N_skips hs p
      unfold lexToks
      rw [tables_lex]
      have : next Gen.lexTable (s.length + 1) s p
          = .token { start := q, index := j, text := String.ofList w, stop := q + utf8Len w } rest := by
        rw [show next Gen.lexTable (s.length + 1) s p = N s p from rfl, hq]
        exact N_token ht q
      rw [this]
      simp only
      have hlen : rest.length < f := by
        have h1 := hs.length_le
        obtain ⟨h2, h3⟩ := ht.shape
        have : 0 < w.length := List.length_pos_iff.mpr h3
        rw [h2, List.length_append] at h1
        omega
      rw [ih f _ hlen]
      rfl

/-- the lexemes of a text are determined by the text -/
theorem lexesTo_unique {s : List Char} {t1 t2 : List (Nat × String)} (h1 : LexesTo s t1) (h2 : LexesTo s t2) : t1 = t2 := by
  have e1 := lexToks_of_lexesTo h1 _ 0 (Nat.lt_succ_self _)
  have e2 := lexToks_of_lexesTo h2 _ 0 (Nat.lt_succ_self _)
  rw [e1] at e2
  simp only [Option.some.injEq, Prod.mk.injEq, and_true] at e2
  exact e2

/-- **Layout independence, stated on the texts (C02)**: two texts that are layouts of the same lexemes — whatever
    white space, line endings and comments separate them, whatever the two line/column lookups — give trees that
    are equal up to positions and documentation (or both none). -/
theorem relayout_same_tree (env1 env2 : Env) (id1 id2 text1 text2 : String)
    (hE1 : EnvOk env1 text1.toList) (hE2 : EnvOk env2 text2.toList) (toks : List (Nat × String))
    (h1 : LexesTo text1.toList toks) (h2 : LexesTo text2.toList toks) :
    ∃ r1 r2, addContentE Driver.Parse.tables env1 id1 text1 = .ok r1
      ∧ addContentE Driver.Parse.tables env2 id2 text2 = .ok r2
      ∧ r1.ast.map erAidl = r2.ast.map erAidl :=
  C02Layout.layout_independent env1 env2 id1 id2 text1 text2 hE1 hE2 (toks, true)
    (lexToks_of_lexesTo h1 _ 0 (Nat.lt_succ_self _)) (lexToks_of_lexesTo h2 _ 0 (Nat.lt_succ_self _))

/-! ### non-vacuity: two layouts of `a;` -/

def semiIdx : Nat := Gen.lexTable.toList.idxOf (Re.cls [(59, 59)], false)

theorem word_a (rest : List Char) (h : ∀ d u, rest = d :: u → isIdentPart d = false) : TokenAt ('a' :: [] ++ rest) identIdx ['a'] rest :=
  TokenAt.word 'a' [] rest identIdx (by decide) (fun _ h => by cases h) h identIdx_entry.1 (by decide +kernel) (by decide +kernel)

theorem semi_tok (rest : List Char) : TokenAt (';' :: rest) semiIdx [';'] rest :=
  TokenAt.punct semiIdx 59 ';' rest (by decide +kernel) (by decide)

example : LexesTo "a;".toList [(identIdx, "a"), (semiIdx, ";")] :=
  LexesTo.tok _ _ ['a'] [';'] identIdx _ (Skips.done _) (word_a [';'] (fun d u h => by cases h; decide))
    (LexesTo.tok _ _ [';'] [] semiIdx _ (Skips.done _) (semi_tok []) (LexesTo.eof _ (Skips.done _)))

example : LexesTo " a /*x*/ ;\n// end".toList [(identIdx, "a"), (semiIdx, ";")] :=
  LexesTo.tok _ ("a /*x*/ ;\n// end".toList) ['a'] (" /*x*/ ;\n// end".toList) identIdx _
    (Skips.ws [' '] _ _ (by simp) (by decide) (fun d u h => by cases h; decide) (Skips.done _))
    (word_a _ (fun d u h => by cases h; decide))
    (LexesTo.tok _ (";\n// end".toList) [';'] ("\n// end".toList) semiIdx _
      (Skips.ws [' '] _ _ (by simp) (by decide) (fun d u h => by cases h; decide)
        (Skips.block "x*/".toList " ;\n// end".toList _ (by decide)
          (Skips.ws [' '] _ _ (by simp) (by decide) (fun d u h => by cases h; decide) (Skips.done _))))
      (semi_tok _)
      (LexesTo.eof _
        (Skips.ws ['\n'] _ _ (by simp) (by decide) (fun d u h => by cases h; decide)
          (Skips.line " end".toList [] (Skips.done _)))))

end Aidl.Props.LexSpec
