import AidlVerif.Model.Lr

/-!
# LR stack-shape certificate

The translator computes, for the regenerated tables, the set of transitions that can occur between
adjacent entries of the parse stack (`succ`), their inverse (`preds`) and the accessing symbol of
each state (`acc`). NOTHING of it is trusted: `Cert.ok` is an executable check of everything the
safety proof needs, evaluated by the kernel on the tables of this run (`Props/LrSafe.lean`):

* every shift of the ACTION table (including the `error` column) is an edge;
* every edge `q --X--> t` has `acc t = X`, `t ≠ 0`, and `q ∈ preds t`;
* for every state `t` and every reduction `A → X₁…X_k` that ACTION or EOF_ACTION allows in `t`:
  walking `k` edges back from `t` only meets states whose accessing symbols are `X_k, …, X₁`, and
  every state `q` reached at the bottom has the edge `q --A--> goto(q, A)`.
-/

namespace Aidl.Lr

structure Cert where
  succ : Array (List (Nat × Nat))
  preds : Array (List Nat)
  acc : Array Nat
  reds : Array (List Nat)      -- state ↦ the productions ACTION / EOF_ACTION can reduce by in that state

namespace Cert
variable (T : Tables) (C : Cert)

def succOf (q : Nat) : List (Nat × Nat) := (C.succ[q]?).getD []
def predsOf (t : Nat) : List Nat := (C.preds[t]?).getD []
def accOf (t : Nat) : Nat := (C.acc[t]?).getD 0
def redsOf (t : Nat) : List Nat := (C.reds[t]?).getD []

def hasEdge (q x t : Nat) : Bool := (C.succOf q).contains (x, t)

def dedup : List Nat → List Nat
  | [] => []
  | x :: xs => let r := dedup xs; if r.contains x then r else x :: r

theorem mem_dedup (x : Nat) : ∀ l : List Nat, x ∈ dedup l ↔ x ∈ l
  | [] => by simp [dedup]
  | y :: ys => by
    have ih := mem_dedup x ys
    simp only [dedup]
    split
    · rename_i h
      have hy : y ∈ dedup ys := by simpa using h
      constructor
      · intro hx; exact List.mem_cons_of_mem _ (ih.mp hx)
      · intro hx
        rcases List.mem_cons.mp hx with rfl | hx
        · exact hy
        · exact ih.mpr hx
    · simp [ih]

/-- walk back over the reversed right-hand side -/
def backWalk : List Nat → List Nat → Option (List Nat)
  | qs, [] => some qs
  | qs, x :: rest =>
    if qs.all (fun t => t != 0 && C.accOf t == x) then backWalk (dedup (qs.flatMap C.predsOf)) rest
    else none

/-- the reduction `p` is safe in state `t` -/
def redOK (t p : Nat) : Bool :=
  match T.prods[p]? with
  | none => false
  | some prod =>
    prod.rhs.length == prod.rhsIds.length && prod.pops == prod.rhsIds.length &&
    match C.backWalk [t] prod.rhsIds.reverse with
    | none => false
    | some qs =>
      if prod.accept then qs.all (· == 0)      -- the accepting reduction empties the stack
      else qs.all fun q => C.hasEdge q (T.ncols + prod.nt) (gotoOf T q prod.nt)

def actOK (t : Nat) (a : Int) : Bool :=
  match asReduce a with
  | some p => (C.redsOf t).contains p
  | none => true

/-- every listed reduction is safe in its state -/
def redsOK : Bool := (List.range C.reds.size).all fun t => (C.redsOf t).all fun p => C.redOK T t p

def shiftOK (q col : Nat) (a : Int) : Bool :=
  match asShift a with
  | some t => C.hasEdge q col t
  | none => true

/-- every entry of ACTION: a shift is a certified edge, a reduction is safe in its state -/
def rowsOK : Bool :=
  T.action.toList.zipIdx.all fun rq =>
    rq.1.toList.zipIdx.all fun ac => C.shiftOK rq.2 ac.2 ac.1 && C.actOK rq.2 ac.1

def eofOK : Bool := T.eof.toList.zipIdx.all fun aq => C.actOK aq.2 aq.1

def edgesOK : Bool :=
  (List.range C.succ.size).all fun q => (C.succOf q).all fun e =>
    e.2 != 0 && C.accOf e.2 == e.1 && (C.predsOf e.2).contains q

def ok : Bool := 0 < T.ncols && C.rowsOK T && C.eofOK T && C.edgesOK && C.redsOK T

end Cert
end Aidl.Lr
