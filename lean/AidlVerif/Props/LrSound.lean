import AidlVerif.Props.LrSafe
import AidlVerif.Props.LrInv

/-!
# Soundness of the LR driver with respect to the grammar of the generated parser (C03, one half)

The grammar is the list of productions of the tables (symbol ids: terminal = ACTION column,
non-terminal = ncols + index). `Yields X w`: the symbol `X` derives the token sequence `w`.
Ghost fields of the model (`Sym.toks`, `St.hist`, `St.recovered`, never read by the driver) record
which tokens a symbol spans, which tokens have been shifted and whether error recovery has run.

`accepted_derives`: **for every input**, when the run accepts and error recovery never ran, the
sequence of shifted tokens is derivable from the start production — "reported free of syntax errors
⇒ well-formed under the grammar".
-/

namespace Aidl.Props.LrSound
open Aidl Aidl.Lr Aidl.Actions Aidl.Lexer
open Aidl.Props.LrSafe

variable (T : Tables) (C : Cert) (env : Env)

mutual
/-- the symbol `X` derives the sequence of terminal columns `w` -/
inductive Yields : Nat → List Nat → Prop
  | term (c : Nat) : c < T.ncols - 1 → Yields c [c]
  | prod (p : Nat) (prod : Production) (w : List Nat) :
      T.prods[p]? = some prod → prod.accept = false → YieldsSeq prod.rhsIds w → Yields (T.ncols + prod.nt) w
/-- a sequence of symbols derives the concatenation -/
inductive YieldsSeq : List Nat → List Nat → Prop
  | nil : YieldsSeq [] []
  | cons (x : Nat) (xs : List Nat) (w ws : List Nat) : Yields x w → YieldsSeq xs ws → YieldsSeq (x :: xs) (w ++ ws)
end

/-- the whole document: the right-hand side of the accepting production derives `w` -/
def Derives (w : List Nat) : Prop :=
  ∃ (p : Nat) (prod : Production), T.prods[p]? = some prod ∧ prod.accept = true ∧ YieldsSeq T prod.rhsIds w

theorem yieldsSeq_of_syms : ∀ (syms : List Sym), (∀ x ∈ syms, Yields T x.id x.toks) →
    YieldsSeq T (syms.map (·.id)) (syms.flatMap (·.toks))
  | [], _ => YieldsSeq.nil
  | x :: xs, h => by
    simp only [List.map_cons, List.flatMap_cons]
    exact YieldsSeq.cons _ _ _ _ (h x (List.mem_cons_self ..))
      (yieldsSeq_of_syms xs (fun y hy => h y (List.mem_cons_of_mem _ hy)))

/-- while no error recovery has run: every symbol derives its tokens, and the shifted tokens are the
    tokens of the stack, bottom to top -/
structure SoundSt (s : St) : Prop where
  syms : ∀ x ∈ s.syms, Yields T x.id x.toks
  hist : s.hist = s.syms.reverse.flatMap (·.toks)

structure Inv3 (s : St) : Prop where
  chain : Chain C s.states s.syms
  sound : s.recovered = false → SoundSt T s

def End3 (s : St) : Outcome → Prop
  | .accept _ => s.recovered = false → Derives T s.hist
  | _ => True

/-- every column a token maps to is a terminal (not `error`) -/
def ColsOk : Prop := ∀ (i col : Nat), T.tokToCol.lookup i = some col → col < T.ncols - 1

theorem nextToken_keeps3 (s : St) :
    (nextToken T s).1.states = s.states ∧ (nextToken T s).1.syms = s.syms ∧ (nextToken T s).1.hist = s.hist
      ∧ (nextToken T s).1.recovered = s.recovered := by
  unfold nextToken
  split
  · exact ⟨rfl, rfl, rfl, rfl⟩
  · exact ⟨rfl, rfl, rfl, rfl⟩
  · split <;> exact ⟨rfl, rfl, rfl, rfl⟩

theorem inv3_of_keeps {s s' : St} (h : Inv3 T C s) (h1 : s'.states = s.states) (h2 : s'.syms = s.syms)
    (h3 : s'.hist = s.hist) (h4 : s'.recovered = s.recovered) : Inv3 T C s' :=
  ⟨by rw [h1, h2]; exact h.chain, by
    intro hr
    have := h.sound (by rw [← h4]; exact hr)
    exact ⟨by rw [h2]; exact this.syms, by rw [h2, h3]; exact this.hist⟩⟩

theorem nextToken_inv3 (hcols : ColsOk T) (s : St) (h : Inv3 T C s) :
    match nextToken T s with
    | (s', .found _ col) => Inv3 T C s' ∧ col < T.ncols - 1
    | (s', .eof) => Inv3 T C s'
    | (s', .done o) => End3 T s' o := by
  have hk := nextToken_keeps3 T s
  have hi : Inv3 T C (nextToken T s).1 := inv3_of_keeps T C h hk.1 hk.2.1 hk.2.2.1 hk.2.2.2
  revert hi
  unfold nextToken
  split
  · exact fun hi => hi
  · exact fun _ => trivial
  · rename_i t rest _
    dsimp only
    cases hc : T.tokToCol.lookup t.index with
    | some col => exact fun hi => ⟨hi, hcols _ _ hc⟩
    | none => exact fun _ => trivial

theorem reduce_inv3 (F : CertFacts T C) (s : St) (p : Nat) (la : Option Nat)
    (h : Inv3 T C s) (hred : C.redOK T (topState s) p = true) :
    match reduce T env s p la with
    | (s', some o) => End3 T s' o
    | (s', none) => Inv3 T C s' := by
  obtain ⟨st, hst⟩ := LrInv.topState_of_chain C h.chain
  obtain ⟨prod, hp, hk, ⟨hids, hlen⟩, heq, _, hchain⟩ := reduce_safe T C F env s (topState s) st p la hst h.chain hred
  cases hres : reduce T env s p la with
  | mk s' oo =>
    have hchain' := hchain s'
    rw [hres] at hchain'
    rw [heq] at hres
    unfold reduceCore at hres
    dsimp only at hres
    revert hres
    cases (ReaderT.run (evalAction T.actions 16 prod.action _) env).run s.diags with
    | error e => intro hres; dsimp only at hres; cases hres; trivial
    | ok r =>
      obtain ⟨v, diags⟩ := r
      intro hres
      dsimp only at hres
      unfold reducePush at hres
      dsimp only at hres
      have hsplit : s.syms = s.syms.take prod.rhs.length ++ s.syms.drop prod.rhs.length := (List.take_append_drop _ _).symm
      by_cases hacc : prod.accept = true
      · rw [if_pos hacc] at hres
        cases hres
        show (s.recovered = false → Derives T s.hist)
        intro hr
        have hs := h.sound hr
        have hempty := accept_empties T C F s (topState s) st p prod hst h.chain hred hp hacc
        refine ⟨p, prod, hp, hacc, ?_⟩
        have hy := yieldsSeq_of_syms T (s.syms.take prod.rhs.length).reverse
          (fun x hx => hs.syms x (List.mem_of_mem_take (List.mem_reverse.mp hx)))
        rw [hids] at hy
        have hh : s.hist = (s.syms.take prod.rhs.length).reverse.flatMap (·.toks) := by
          rw [hs.hist]
          conv => lhs; rw [hsplit, hempty, List.append_nil]
        rw [hh]; exact hy
      · rw [if_neg hacc] at hres
        split at hres
        · cases hres; trivial
        · cases hres
          refine ⟨hchain' rfl, ?_⟩
          intro hr
          have hs := h.sound hr
          have hacc' : prod.accept = false := by simpa using hacc
          have hy := yieldsSeq_of_syms T (s.syms.take prod.rhs.length).reverse
            (fun x hx => hs.syms x (List.mem_of_mem_take (List.mem_reverse.mp hx)))
          rw [hids] at hy
          refine ⟨?_, ?_⟩
          · intro x hx
            rcases List.mem_cons.mp hx with rfl | hx
            · exact Yields.prod p prod _ hp hacc' hy
            · exact hs.syms x (List.mem_of_mem_drop hx)
          · show s.hist = _
            rw [hs.hist]
            have : s.syms.reverse = (s.syms.drop prod.rhs.length).reverse ++ (s.syms.take prod.rhs.length).reverse := by
              rw [← List.reverse_append, List.take_append_drop]
            rw [this]
            simp [List.flatMap_append]


/-! ### error recovery only sets `recovered`; the loops -/

theorem reduceOnError_inv3 (F : CertFacts T C) (la : Option Token) :
    ∀ (fuel : Nat) (s : St), Inv3 T C s →
      match reduceOnError T env la s fuel with
      | (s', some o) => End3 T s' o
      | (s', none) => Inv3 T C s' := by
  intro fuel
  induction fuel with
  | zero => intro s _; unfold reduceOnError; trivial
  | succ f ih =>
    intro s h
    unfold reduceOnError
    cases hr : asReduce (errorAction T (topState s)) with
    | none => exact h
    | some r =>
      dsimp only
      have hred := F.red (topState s) (T.ncols - 1) r hr
      have := reduce_inv3 T C env F s r (la.map (·.start)) h hred
      revert this
      cases reduce T env s r (la.map (·.start)) with
      | mk s' oo =>
        cases oo with
        | some o => exact fun hh => hh
        | none => exact fun hh => ih s' hh

/-- after the second loop of error recovery the stacks are as before -/
theorem findState_inv3 (hcols : ColsOk T) (error : ParseErr) (statesLen : Nat) :
    ∀ (fuel : Nat) (s : St) (la : Option Token) (col : Option Nat) (dropped : List Token),
      Inv3 T C s → s.states.length = statesLen → la.isSome = col.isSome → (∀ c, col = some c → c < T.ncols - 1) →
      match findState T error statesLen s la col dropped fuel with
      | (s', .inl (.done o)) => End3 T s' o
      | (_, .inl _) => False
      | (s', .inr (top, la', col', _)) =>
          Chain C s'.states s'.syms ∧ s'.states.length = statesLen ∧ top < statesLen
          ∧ (asShift (errorAction T ((s'.states.drop (statesLen - 1 - top)).headD 0))).isSome = true
          ∧ la'.isSome = col'.isSome ∧ (∀ c, col' = some c → c < T.ncols - 1) ∧ (la = none → la' = none) := by
  intro fuel
  induction fuel with
  | zero => intro s la col dropped _ _ _ _; unfold findState; trivial
  | succ f ih =>
    intro s la col dropped h hlen hlc hcol
    unfold findState
    cases hc : errorCandidate T statesLen s col with
    | some top =>
      obtain ⟨h1, h2⟩ := LrInv.errorCandidate_spec T hc
      exact ⟨h.chain, hlen, h1, h2, hlc, hcol, fun hh => hh⟩
    | none =>
      dsimp only
      cases la with
      | none => trivial
      | some l =>
        dsimp only
        have hn := nextToken_inv3 T C hcols s h
        have hk := nextToken_keeps3 T s
        revert hn hk
        cases nextToken T s with
        | mk s' r =>
          cases r with
          | found t c =>
            intro hn hk
            dsimp only
            have := ih s' (some t) (some c) (dropped ++ [l]) hn.1 (by rw [hk.1]; exact hlen) rfl
              (by intro c' hc'; cases hc'; exact hn.2)
            revert this
            cases findState T error statesLen s' (some t) (some c) (dropped ++ [l]) f with
            | mk s'' r' =>
              cases r' with
              | inl nt => cases nt <;> exact fun hh => hh
              | inr x => intro hx; exact ⟨hx.1, hx.2.1, hx.2.2.1, hx.2.2.2.1, hx.2.2.2.2.1, hx.2.2.2.2.2.1, by intro hh; cases hh⟩
          | eof =>
            intro hn hk
            dsimp only
            have := ih s' none none (dropped ++ [l]) hn (by rw [hk.1]; exact hlen) rfl (by intro c' hc'; cases hc')
            revert this
            cases findState T error statesLen s' none none (dropped ++ [l]) f with
            | mk s'' r' =>
              cases r' with
              | inl nt => cases nt <;> exact fun hh => hh
              | inr x => intro hx; exact ⟨hx.1, hx.2.1, hx.2.2.1, hx.2.2.2.1, hx.2.2.2.2.1, hx.2.2.2.2.2.1, by intro hh; cases hh⟩
          | done o => intro hn _; exact hn

theorem recoverPush_inv3 (F : CertFacts T C) (error : ParseErr) (statesLen : Nat)
    (s : St) (top : Nat) (la : Option Token) (col : Option Nat) (dropped : List Token)
    (hchain : Chain C s.states s.syms) (hlen : s.states.length = statesLen) (htop : top < statesLen)
    (hshift : (asShift (errorAction T ((s.states.drop (statesLen - 1 - top)).headD 0))).isSome = true)
    (hlc : la.isSome = col.isSome) (hcol : ∀ c, col = some c → c < T.ncols - 1) :
    match recoverPush T error statesLen s top la col dropped with
    | (s', .found _ c) => Inv3 T C s' ∧ c < T.ncols - 1 ∧ la.isSome = true
    | (s', .eof) => Inv3 T C s' ∧ la = none
    | (s', .done o) => End3 T s' o := by
  have hsl := hchain.length
  have hn : statesLen - 1 - top ≤ s.syms.length := by omega
  have hdrop := hchain.drop (statesLen - 1 - top) hn
  have hsyms : (s.syms.reverse.take top).reverse = s.syms.drop (statesLen - 1 - top) := by
    rw [List.take_reverse, List.reverse_reverse]
    congr 1
    omega
  unfold recoverPush
  dsimp only
  cases hsh : asShift (errorAction T ((s.states.drop (statesLen - 1 - top)).headD 0)) with
  | none => rw [hsh] at hshift; cases hshift
  | some errState =>
    dsimp only
    have hne : ∃ q rest, s.states.drop (statesLen - 1 - top) = q :: rest := by
      cases hd : s.states.drop (statesLen - 1 - top) with
      | nil =>
        have := congrArg List.length hd
        simp only [List.length_drop, List.length_nil] at this
        omega
      | cons q rest => exact ⟨q, rest, rfl⟩
    obtain ⟨q, rest, hq⟩ := hne
    rw [hq] at hsh hdrop
    simp only [List.headD_cons] at hsh
    have hedge := F.shift q (T.ncols - 1) errState hsh
    have hinv : ∀ (s' : St) (x : Sym), s'.states = errState :: s.states.drop (statesLen - 1 - top) →
        s'.syms = x :: (s.syms.reverse.take top).reverse → s'.recovered = true → x.id = T.ncols - 1 → Inv3 T C s' := by
      intro s' x h1 h2 h3 hid
      refine ⟨?_, ?_⟩
      · rw [h1, h2, hsyms, hq]
        exact Chain.step hdrop (by rw [hid]; exact hedge)
      · intro hr; rw [h3] at hr; cases hr
    cases la with
    | some l =>
      cases col with
      | some c => exact ⟨hinv _ _ rfl rfl rfl rfl, hcol c rfl, rfl⟩
      | none => simp at hlc
    | none =>
      cases col with
      | some c => simp at hlc
      | none => exact ⟨hinv _ _ rfl rfl rfl rfl, rfl⟩

theorem errorRecovery_inv3 (F : CertFacts T C) (hcols : ColsOk T) (s : St) (la : Option Token) (col : Option Nat)
    (fuel : Nat) (h : Inv3 T C s) (hlc : la.isSome = col.isSome) (hcol : ∀ c, col = some c → c < T.ncols - 1) :
    match errorRecovery T env s la col fuel with
    | (s', .found _ c) => Inv3 T C s' ∧ c < T.ncols - 1 ∧ la.isSome = true
    | (s', .eof) => Inv3 T C s'
    | (s', .done o) => End3 T s' o := by
  unfold errorRecovery
  dsimp only
  have h1 := reduceOnError_inv3 T C env F la fuel s h
  revert h1
  cases reduceOnError T env la s fuel with
  | mk s1 oo =>
    cases oo with
    | some o => exact fun hh => hh
    | none =>
      intro h1
      dsimp only
      have h2 := findState_inv3 T C hcols (unrecognized T s la) s1.states.length fuel s1 la col [] h1 rfl hlc hcol
      revert h2
      cases findState T (unrecognized T s la) s1.states.length s1 la col [] fuel with
      | mk s2 r =>
        cases r with
        | inl nt =>
          cases nt with
          | done o => exact fun hh => hh
          | found t c => exact fun hh => hh.elim
          | eof => exact fun hh => hh.elim
        | inr x =>
          obtain ⟨top, la', col', dropped'⟩ := x
          rintro ⟨hi, hl, htop, hsh, hlc', hcol', hnone⟩
          dsimp only
          have h3 := recoverPush_inv3 T C F (unrecognized T s la) s1.states.length s2 top la' col' dropped' hi hl htop hsh hlc' hcol'
          revert h3
          cases recoverPush T (unrecognized T s la) s1.states.length s2 top la' col' dropped' with
          | mk s3 r3 =>
            cases r3 with
            | found t c =>
              intro h3
              refine ⟨h3.1, h3.2.1, ?_⟩
              cases la with
              | some _ => rfl
              | none => have := hnone rfl; rw [this] at h3; cases h3.2.2
            | eof => exact fun h3 => h3.1
            | done o => exact fun hh => hh

theorem parseEof_inv3 (F : CertFacts T C) (hcols : ColsOk T) :
    ∀ (fuel : Nat) (s : St), Inv3 T C s → End3 T (parseEof T env s fuel).1 (parseEof T env s fuel).2 := by
  intro fuel
  induction fuel with
  | zero => intro s _; unfold parseEof; trivial
  | succ f ih =>
    intro s h
    unfold parseEof
    cases hr : asReduce (eofActionAt T (topState s)) with
    | some r =>
      dsimp only
      have hred := F.redEof (topState s) r hr
      have := reduce_inv3 T C env F s r none h hred
      revert this
      cases reduce T env s r none with
      | mk s' oo =>
        cases oo with
        | some o => exact fun hh => hh
        | none => exact fun hh => ih s' hh
    | none =>
      dsimp only
      have := errorRecovery_inv3 T C env F hcols s none none f h rfl (by intro c hc; cases hc)
      revert this
      cases errorRecovery T env s none none f with
      | mk s' r =>
        cases r with
        | found t c => intro h'; have := h'.2.2; cases this
        | eof => exact fun h' => ih s' h'
        | done o => exact fun hh => hh

theorem parseInner_inv3 (F : CertFacts T C) (hcols : ColsOk T) :
    ∀ (fuel : Nat) (s : St) (la : Token) (col : Nat), Inv3 T C s → col < T.ncols - 1 →
      match parseInner T env s la col fuel with
      | (s', .inl ()) => Inv3 T C s'
      | (s', .inr o) => End3 T s' o := by
  intro fuel
  induction fuel with
  | zero => intro s la col _ _; unfold parseInner; trivial
  | succ f ih =>
    intro s la col h hcol
    unfold parseInner
    dsimp only
    cases hs : asShift (actionAt T (topState s) col) with
    | some target =>
      dsimp only
      obtain ⟨st, hst⟩ := LrInv.topState_of_chain C h.chain
      have hedge := F.shift (topState s) col target hs
      refine ⟨?_, ?_⟩
      · show Chain C (target :: s.states) (_ :: s.syms)
        have hc := h.chain
        rw [hst] at hc ⊢
        exact Chain.step hc hedge
      · intro hr
        have hsd := h.sound hr
        refine ⟨?_, ?_⟩
        · intro y hy
          rcases List.mem_cons.mp hy with rfl | hy
          · exact Yields.term col hcol
          · exact hsd.syms y hy
        · show s.hist ++ [col] = _
          rw [hsd.hist]
          simp
    | none =>
      dsimp only
      cases hr : asReduce (actionAt T (topState s) col) with
      | some r =>
        dsimp only
        have hred := F.red (topState s) col r hr
        have := reduce_inv3 T C env F s r (some la.start) h hred
        revert this
        cases reduce T env s r (some la.start) with
        | mk s' oo =>
          cases oo with
          | some o =>
            cases o with
            | accept v => exact fun _ => trivial
            | error e => exact fun hh => hh
            | panic m => exact fun hh => hh
            | actionPanic p => exact fun hh => hh
            | fuelOut => exact fun hh => hh
          | none => exact fun h' => ih s' la col h' hcol
      | none =>
        dsimp only
        have := errorRecovery_inv3 T C env F hcols s (some la) (some col) f h rfl (by intro c hc; cases hc; exact hcol)
        revert this
        cases errorRecovery T env s (some la) (some col) f with
        | mk s' r =>
          cases r with
          | found l c => exact fun h' => ih s' l c h'.1 h'.2.1
          | eof => exact fun h' => parseEof_inv3 T C env F hcols f s' h'
          | done o => exact fun hh => hh

theorem parseLoop_inv3 (F : CertFacts T C) (hcols : ColsOk T) :
    ∀ (fuel : Nat) (s : St), Inv3 T C s → End3 T (parseLoop T env s fuel).1 (parseLoop T env s fuel).2 := by
  intro fuel
  induction fuel with
  | zero => intro s _; unfold parseLoop; trivial
  | succ f ih =>
    intro s h
    unfold parseLoop
    have hn := nextToken_inv3 T C hcols s h
    revert hn
    cases nextToken T s with
    | mk s' r =>
      cases r with
      | eof => exact fun hn => parseEof_inv3 T C env F hcols f s' hn
      | done o => exact fun hh => hh
      | found la col =>
        intro hn
        dsimp only
        have := parseInner_inv3 T C env F hcols f s' la col hn.1 hn.2
        revert this
        cases parseInner T env s' la col f with
        | mk s'' r' =>
          cases r' with
          | inl u => cases u; exact fun h' => ih s'' h'
          | inr o => exact fun hh => hh

theorem inv3_init (text : List Char) : Inv3 T C { input := text } :=
  ⟨Chain.base, fun _ => ⟨(by intro x hx; cases hx), rfl⟩⟩

/-- **For every input**: when the run accepts and error recovery never ran, the tokens shifted are
    derivable from the start production of the grammar. -/
theorem accepted_derives (F : CertFacts T C) (hcols : ColsOk T) (text : List Char) (fuel : Nat) (v : Val)
    (h : (parseLoop T env { input := text } fuel).2 = .accept v)
    (hr : (parseLoop T env { input := text } fuel).1.recovered = false) :
    Derives T (parseLoop T env { input := text } fuel).1.hist := by
  have := parseLoop_inv3 T C env F hcols fuel _ (inv3_init T C text)
  rw [h] at this
  exact this hr

end Aidl.Props.LrSound
