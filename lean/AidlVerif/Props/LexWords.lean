import AidlVerif.Props.LexIdent

/-!
# Reserved words — which words are not identifiers, read off the table

`wordsOf r`: the finite language of a star-free expression over single-character classes, in the matcher's
preference order. `m_words`: on such an expression the backtracking matcher IS "the first listed word that is a
prefix of the input" — for every input, continuation and step bound. With the two kernel-evaluated facts about
THIS run's table (`wordEntries_ok`: every word-only entry but IDENT is such an expression, stands after IDENT,
and lists no word after one of its proper prefixes) this turns `next_word` into a closed form:

* `next_reserved`: a word listed by an entry is a token of the LAST entry that lists it;
* `next_identifier`: a word no entry lists is an IDENT token.
-/

namespace Aidl.Props.LexWords
open Aidl.Regex Aidl.Lexer Aidl.Javadoc Aidl.Props.JavadocTotal Aidl.Props.LexerBounds Aidl.Props.LexerProgress
  Aidl.Props.RegexSound Aidl.Props.JavadocSpec Aidl.Props.SkipEntries Aidl.Props.LexSkip Aidl.Props.LexerFuel Aidl.Props.LexIdent

/-! ### prefixes -/

/-- `strip w s`: what is left of `s` after the prefix `w` -/
def strip : List Char → List Char → Option (List Char)
  | [], s => some s
  | _ :: _, [] => none
  | c :: w, d :: s => if c = d then strip w s else none

theorem strip_append : ∀ (x y s : List Char), strip (x ++ y) s = (strip x s).bind (strip y)
  | [], y, s => rfl
  | c :: x, y, [] => rfl
  | c :: x, y, d :: s => by
    simp only [List.cons_append, strip]
    split
    · exact strip_append x y s
    · rfl

theorem strip_eq_some : ∀ (w s s' : List Char), strip w s = some s' ↔ s = w ++ s'
  | [], s, s' => by simp [strip]
  | c :: w, [], s' => by simp [strip]
  | c :: w, d :: s, s' => by
    simp only [strip, List.cons_append, List.cons.injEq]
    split
    · rename_i h; subst h; simp [strip_eq_some w s s']
    · rename_i h
      constructor
      · intro h'; cases h'
      · intro ⟨h', _⟩; exact absurd h'.symm h

theorem strip_self (w : List Char) : strip w w = some [] := (strip_eq_some w w []).mpr (by simp)

/-! ### the words of a star-free expression -/

def wordsOf : Re → Option (List (List Char))
  | .eps => some [[]]
  | .cls rs =>
    match rs with
    | [(a, b)] => if a = b ∧ (Char.ofNat a).toNat = a then some [[Char.ofNat a]] else none
    | _ => none
  | .seq a b =>
    match wordsOf a, wordsOf b with
    | some wa, some wb => some (wa.flatMap fun x => wb.map fun y => x ++ y)
    | _, _ => none
  | .alt a b =>
    match wordsOf a, wordsOf b with
    | some wa, some wb => some (wa ++ wb)
    | _, _ => none
  | .star _ => none

/-- try one word: the continuation runs on what is left after it -/
def tryWord (s : List Char) (p : Nat) (k : K) (w : List Char) : Option Nat :=
  match strip w s with
  | some s' => k s' (p + utf8Len w)
  | none => none

theorem tryWord_none {s : List Char} {p : Nat} {k : K} {w : List Char} (h : strip w s = none) : tryWord s p k w = none := by
  unfold tryWord; rw [h]

theorem tryWord_some {s : List Char} {p : Nat} {k : K} {w s' : List Char} (h : strip w s = some s') :
    tryWord s p k w = k s' (p + utf8Len w) := by
  unfold tryWord; rw [h]

theorem findSome?_flatMap {α β γ} (f : α → List β) (g : β → Option γ) : ∀ (l : List α),
    (l.flatMap f).findSome? g = l.findSome? (fun x => (f x).findSome? g)
  | [] => rfl
  | x :: l => by
    rw [List.flatMap_cons, List.findSome?_append, List.findSome?_cons, findSome?_flatMap f g l]
    cases (f x).findSome? g <;> rfl

theorem findSome?_none {α β} (l : List α) : l.findSome? (fun _ => (none : Option β)) = none := by
  induction l with
  | nil => rfl
  | cons x l ih => rw [List.findSome?_cons]; exact ih

/-- **on a star-free expression the matcher is "the first listed word that is a prefix"** -/
theorem m_words : ∀ (r : Re) (ws : List (List Char)), wordsOf r = some ws →
    ∀ (f : Nat) (s : List Char) (p : Nat) (k : K), m r f s p k = ws.findSome? (tryWord s p k) := by
  intro r
  induction r with
  | eps =>
    intro ws h f s p k
    simp only [wordsOf, Option.some.injEq] at h
    subst h
    simp [m, tryWord, strip, utf8Len_nil]
  | cls rs =>
    intro ws h f s p k
    unfold wordsOf at h
    split at h
    · rename_i a b
      split at h
      · rename_i hab
        obtain ⟨hab, hval⟩ := hab
        subst hab
        simp only [Option.some.injEq] at h
        subst h
        have hin : ∀ d : Char, inCls [(a, a)] d = true ↔ Char.ofNat a = d := by
          intro d
          unfold inCls
          simp only [List.any_cons, List.any_nil, Bool.or_false, Bool.and_eq_true, decide_eq_true_eq]
          constructor
          · intro ⟨h1, h2⟩
            apply Char.toNat_inj.mp
            rw [hval]; omega
          · intro h; subst h; rw [hval]; exact ⟨Nat.le_refl _, Nat.le_refl _⟩
        cases s with
        | nil => simp [m, tryWord, strip]
        | cons d s' =>
          simp only [m, List.findSome?_cons, List.findSome?_nil, tryWord, strip]
          by_cases hd : Char.ofNat a = d
          · rw [if_pos ((hin d).mpr hd), if_pos hd]
            simp only
            rw [← hd, utf8Len_cons, utf8Len_nil, Nat.add_zero]
            generalize k s' (p + (Char.ofNat a).utf8Size) = A
            cases A <;> rfl
          · have : inCls [(a, a)] d = false := by
              cases hc : inCls [(a, a)] d with
              | false => rfl
              | true => exact absurd ((hin d).mp hc) hd
            rw [this, if_neg hd]
            simp
      · cases h
    · cases h
  | seq a b iha ihb =>
    intro ws h f s p k
    unfold wordsOf at h
    split at h
    · rename_i wa wb ha hb
      simp only [Option.some.injEq] at h
      subst h
      simp only [m]
      have hk : (fun s' p' => m b f s' p' k) = (fun s' p' => wb.findSome? (tryWord s' p' k)) := by
        funext s' p'; exact ihb wb hb f s' p' k
      rw [hk, iha wa ha f s p _, findSome?_flatMap]
      congr 1
      funext x
      rw [List.findSome?_map]
      cases hx : strip x s with
      | none =>
        have : (tryWord s p k ∘ fun y => x ++ y) = fun _ => none := by
          funext y
          simp only [Function.comp]
          exact tryWord_none (by rw [strip_append, hx]; rfl)
        rw [this, tryWord_none hx]
        exact (findSome?_none wb).symm
      | some s' =>
        have : (tryWord s p k ∘ fun y => x ++ y) = tryWord s' (p + utf8Len x) k := by
          funext y
          unfold tryWord
          simp only [Function.comp, strip_append, hx, Option.bind_some, utf8Len_append, Nat.add_assoc]
        rw [this, tryWord_some hx]
    · cases h
  | alt a b iha ihb =>
    intro ws h f s p k
    unfold wordsOf at h
    split at h
    · rename_i wa wb ha hb
      simp only [Option.some.injEq] at h
      subst h
      simp only [m]
      rw [iha wa ha f s p k, ihb wb hb f s p k, List.findSome?_append]
      cases wa.findSome? (tryWord s p k) <;> rfl
    · cases h
  | star a _ => intro ws h; cases h

/-- the first listed word that is a prefix of `s` -/
def firstWord (ws : List (List Char)) (s : List Char) : Option (List Char) := ws.find? fun w => (strip w s).isSome

theorem findSome_tryWord (s : List Char) (p : Nat) : ∀ (ws : List (List Char)),
    ws.findSome? (tryWord s p (fun _ p' => some p')) = (ws.find? fun w => (strip w s).isSome).map (fun w => p + utf8Len w)
  | [] => rfl
  | w :: ws => by
    rw [List.findSome?_cons, List.find?_cons]
    cases hw : strip w s with
    | none => rw [tryWord_none hw]; simp only [Option.isSome_none]; exact findSome_tryWord s p ws
    | some s' => rw [tryWord_some hw]; simp

theorem matchAt_words (r : Re) (ws : List (List Char)) (h : wordsOf r = some ws) (f : Nat) (s : List Char) (p : Nat) :
    matchAt r f s p = (firstWord ws s).map (fun w => p + utf8Len w) := by
  unfold matchAt
  rw [m_words r ws h]
  exact findSome_tryWord s p ws

/-! ### entries that list their words in an order the matcher respects -/

/-- no word stands after one of its proper prefixes -/
def ordOk : List (List Char) → Bool
  | [] => true
  | u :: vs => vs.all (fun v => !((strip u v).isSome && u != v)) && ordOk vs

theorem firstWord_self : ∀ (ws : List (List Char)) (w0 : List Char), ordOk ws = true → w0 ∈ ws → firstWord ws w0 = some w0
  | [], _, _, h => by cases h
  | u :: vs, w0, hord, hmem => by
    simp only [ordOk, Bool.and_eq_true, List.all_eq_true] at hord
    unfold firstWord
    rw [List.find?_cons]
    cases hu : (strip u w0).isSome with
    | true =>
      simp only
      rcases List.mem_cons.mp hmem with h | h
      · rw [h]
      · have := hord.1 w0 h
        rw [hu] at this
        simp only [Bool.true_and, Bool.not_eq_true', bne_eq_false_iff_eq] at this
        rw [this]
    | false =>
      simp only
      rcases List.mem_cons.mp hmem with h | h
      · subst h; rw [strip_self] at hu; cases hu
      · exact firstWord_self vs w0 hord.2 h

theorem firstWord_mem (ws : List (List Char)) (s w : List Char) (h : firstWord ws s = some w) : w ∈ ws :=
  List.mem_of_find?_eq_some h

/-- a word entry matches the whole word exactly when the first listed word that is a prefix of it is the word itself -/
theorem full_iff_first (r : Re) (ws : List (List Char)) (h : wordsOf r = some ws) (f : Nat) (w0 : List Char) :
    matchAt r f w0 0 = some (utf8Len w0) ↔ firstWord ws w0 = some w0 := by
  rw [matchAt_words r ws h]
  constructor
  · intro hm
    cases hf : firstWord ws w0 with
    | none => rw [hf] at hm; cases hm
    | some w =>
      rw [hf] at hm
      simp only [Option.map_some, Option.some.injEq, Nat.zero_add] at hm
      have hpre : (strip w w0).isSome = true := by
        have := List.find?_some hf
        exact this
      obtain ⟨s', hs'⟩ := Option.isSome_iff_exists.mp hpre
      have hw0 := (strip_eq_some w w0 s').mp hs'
      have hlen : utf8Len s' = 0 := by
        have : utf8Len w0 = utf8Len w + utf8Len s' := by rw [hw0, utf8Len_append]
        omega
      have hnil : s' = [] := by
        cases s' with
        | nil => rfl
        | cons d u => rw [utf8Len_cons] at hlen; have := utf8Size_pos d; omega
      rw [hnil, List.append_nil] at hw0
      rw [hw0]
  · intro hm
    rw [hm]
    simp

/-- … which, when the list has no word after one of its proper prefixes, is: it lists the word -/
theorem full_iff_listed (r : Re) (ws : List (List Char)) (h : wordsOf r = some ws) (hord : ordOk ws = true) (f : Nat) (w0 : List Char) :
    matchAt r f w0 0 = some (utf8Len w0) ↔ w0 ∈ ws := by
  rw [full_iff_first r ws h]
  exact ⟨fun hm => firstWord_mem ws w0 w0 hm, fun hm => firstWord_self ws w0 hord hm⟩

/-! ### the table of this run -/

/-- entry `i` lists the word `w`, and no proper prefix of `w` before it -/
def listed (i : Nat) (w : List Char) : Bool :=
  i != identIdx && !disjointCls identStartCls (firstCls Gen.lexTable[i]!.1) &&
    match wordsOf Gen.lexTable[i]!.1 with
    | some ws => firstWord ws w == some w
    | none => false

/-- every entry of this run's table that can begin with a word-start character, other than IDENT, is a star-free
    expression over single characters and stands after IDENT (kernel evaluation over the table) -/
def wordEntries : Bool :=
  (List.range Gen.lexTable.size).all fun i =>
    i == identIdx || disjointCls identStartCls (firstCls Gen.lexTable[i]!.1) ||
      (decide (identIdx < i) && (wordsOf Gen.lexTable[i]!.1).isSome)

theorem wordEntries_ok : wordEntries = true := by decide +kernel

theorem not_full_of_disjoint (i : Nat) (c : Char) (t : List Char) (hc : inCls identStartCls c = true)
    (hdis : disjointCls identStartCls (firstCls Gen.lexTable[i]!.1) = true) (f : Nat) :
    matchAt Gen.lexTable[i]!.1 f (c :: t) 0 ≠ some (utf8Len (c :: t)) := by
  intro hfull
  have := matchAt_outside _ _ c t 0 _ (disjoint_sound _ _ hdis c hc) hfull
  rw [utf8Len_cons] at this
  have := utf8Size_pos c
  omega

theorem fullOn_iff_listed (i : Nat) (hi : i < Gen.lexTable.size) (hne : i ≠ identIdx) (c : Char) (t : List Char)
    (hc : inCls identStartCls c = true) : fullOn i (c :: t) = true ↔ listed i (c :: t) = true := by
  have hall := List.all_eq_true.mp wordEntries_ok i (List.mem_range.mpr hi)
  simp only [Bool.or_eq_true, beq_iff_eq, Bool.and_eq_true, decide_eq_true_eq] at hall
  unfold listed fullOn
  rcases hall with (h | h) | ⟨_, h⟩
  · exact absurd h hne
  · -- it cannot begin with a word-start character
    rw [h]
    simp only [Bool.not_true, Bool.and_false, Bool.false_and, Bool.false_eq_true, iff_false]
    intro hfull
    exact not_full_of_disjoint i c t hc h _ (eq_of_beq hfull)
  · cases hw : wordsOf Gen.lexTable[i]!.1 with
    | none => rw [hw] at h; cases h
    | some ws =>
      have hiff := full_iff_first _ ws hw ((c :: t).length + 1) (c :: t)
      simp only [beq_iff_eq]
      rw [hiff]
      simp only [Bool.and_eq_true, bne_iff_ne, ne_eq, Bool.not_eq_true', beq_iff_eq]
      constructor
      · intro hm
        refine ⟨⟨hne, ?_⟩, hm⟩
        cases hdis : disjointCls identStartCls (firstCls Gen.lexTable[i]!.1) with
        | false => rfl
        | true => exact absurd (hiff.mpr hm) (not_full_of_disjoint i c t hc hdis _)
      · intro ⟨_, hm⟩; exact hm

theorem listed_after_ident (i : Nat) (hi : i < Gen.lexTable.size) (w : List Char) (h : listed i w = true) : identIdx < i := by
  have hall := List.all_eq_true.mp wordEntries_ok i (List.mem_range.mpr hi)
  simp only [Bool.or_eq_true, beq_iff_eq, Bool.and_eq_true, decide_eq_true_eq] at hall
  unfold listed at h
  simp only [Bool.and_eq_true, bne_iff_ne, ne_eq, Bool.not_eq_true'] at h
  rcases hall with (h' | h') | ⟨h', _⟩
  · exact absurd h' h.1.1
  · rw [h.1.2] at h'; cases h'
  · exact h'

theorem identIdx_full (c : Char) (t : List Char) (hc : inCls identStartCls c = true) (ht : ∀ d ∈ t, isIdentPart d = true) :
    fullOn identIdx (c :: t) = true := by
  unfold fullOn
  rw [identIdx_entry.2, matchAt_ident _ c t 0 (by simp only [List.length_cons]; omega), if_pos hc]
  have : t.takeWhile isIdentPart = t := by
    have := takeWhile_run isIdentPart t [] ht (fun _ _ h => by cases h)
    rwa [List.append_nil] at this
  rw [this, utf8Len_cons, Nat.zero_add]
  exact beq_self_eq_true _

/-- **A reserved word is a token of the last entry that lists it** — for every text that begins with the word
    (a maximal run of word characters), whatever follows, wherever it stands. -/
theorem next_reserved (fuel : Nat) (c : Char) (t rest : List Char) (p i : Nat)
    (hc : inCls identStartCls c = true) (ht : ∀ d ∈ t, isIdentPart d = true)
    (hout : ∀ d u, rest = d :: u → isIdentPart d = false) (hf : (c :: t ++ rest).length ≤ fuel)
    (hi : i < Gen.lexTable.size) (hl : listed i (c :: t) = true)
    (hlast : ∀ i', i' < Gen.lexTable.size → listed i' (c :: t) = true → i' ≤ i) :
    next Gen.lexTable (fuel + 1) (c :: t ++ rest) p
      = .token { start := p, index := i, text := String.ofList (c :: t), stop := p + utf8Len (c :: t) } rest := by
  obtain ⟨j, hj, hjf, hmax, hnext⟩ := next_word fuel c t rest p hc ht hout hf
  have hgt := listed_after_ident i hi _ hl
  have hine : i ≠ identIdx := by omega
  have hij : i ≤ j := hmax i hi ((fullOn_iff_listed i hi hine c t hc).mpr hl)
  have hjne : j ≠ identIdx := by omega
  have hji : j ≤ i := hlast j hj ((fullOn_iff_listed j hj hjne c t hc).mp hjf)
  have : j = i := by omega
  rw [hnext, this]

/-- **A word that no entry lists is an identifier** -/
theorem next_identifier (fuel : Nat) (c : Char) (t rest : List Char) (p : Nat)
    (hc : inCls identStartCls c = true) (ht : ∀ d ∈ t, isIdentPart d = true)
    (hout : ∀ d u, rest = d :: u → isIdentPart d = false) (hf : (c :: t ++ rest).length ≤ fuel)
    (hnone : ∀ i, i < Gen.lexTable.size → listed i (c :: t) = false) :
    next Gen.lexTable (fuel + 1) (c :: t ++ rest) p
      = .token { start := p, index := identIdx, text := String.ofList (c :: t), stop := p + utf8Len (c :: t) } rest := by
  apply next_plain_ident fuel c t rest p hc ht hout hf
  intro i hi hfull
  by_cases hne : i = identIdx
  · exact hne
  · have := (fullOn_iff_listed i hi hne c t hc).mp hfull
    rw [hnone i hi] at this; cases this

/-! ### non-vacuity -/

/-- the reserved words of this run's table with their entries -/
def reservedWords : List (String × Nat) :=
  (List.range Gen.lexTable.size).flatMap fun i =>
    if i != identIdx && !disjointCls identStartCls (firstCls Gen.lexTable[i]!.1) then
      match wordsOf Gen.lexTable[i]!.1 with
      | some ws => (ws.filter fun w => firstWord ws w == some w).map fun w => (String.ofList w, i)
      | none => []
    else []

example : ("interface", Gen.lexTable.toList.idxOf (Re.seqs ("interface".toList.map Re.chr), false)) ∈ reservedWords := by decide +kernel
example : listed (Gen.lexTable.toList.idxOf (Re.seqs ("oneway".toList.map Re.chr), false)) "oneway".toList = true := by decide +kernel
example : (List.range Gen.lexTable.size).all (fun i => !listed i "oneways".toList) = true := by decide +kernel
example : 20 ≤ reservedWords.length := by decide +kernel
-- `double` stands after its proper prefix `do` in the list of reserved words, so that entry never matches it entirely;
-- the entry of the primitive types, which stands later in the table, does
example : (reservedWords.filter (·.1 == "double")).length = 1 ∧ (reservedWords.filter (·.1 == "do")).length = 1 := by decide +kernel

end Aidl.Props.LexWords
