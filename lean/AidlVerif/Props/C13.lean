import AidlVerif.Spec.C13
import AidlVerif.Props.C06

/-!
# C13 — property theorems (about the model)
-/

namespace Aidl.Props.C13
open Aidl Aidl.Spec Aidl.Spec.C13

theorem minStr?_mem (l : List String) (x : String) (h : minStr? l = some x) : x ∈ l := by
  induction l generalizing x with
  | nil => cases h
  | cons y ys ih =>
    simp only [minStr?] at h
    cases hm : minStr? ys with
    | none => simp [hm] at h; simp [h]
    | some m =>
      simp only [hm] at h
      injection h with h
      split at h
      · subst h; exact List.mem_cons_of_mem _ (ih m hm)
      · subst h; simp

/-- `resolve_type` consults `defined` only at keys the file imports -/
theorem resolveKind_congr (imports declared : List String) (d₁ d₂ : Defined)
    (h : ∀ k ∈ imports, d₁.get k = d₂.get k) (name : String) (kind : TypeKind) :
    resolveKind imports declared d₁ name kind = resolveKind imports declared d₂ name kind := by
  unfold resolveKind
  split
  · rfl
  · split
    · rfl
    · cases hm : minStr? (imports.filter (importMatches name)) with
      | none => rfl
      | some ip =>
        have hip : ip ∈ imports := (List.mem_filter.mp (minStr?_mem _ _ hm)).1
        simp only [h ip hip]

theorem resolveTypes_congr (ast : AidlFile) (imports declared : List String) (d₁ d₂ : Defined)
    (h : ∀ k ∈ imports, d₁.get k = d₂.get k) :
    resolveTypes ast imports declared d₁ = resolveTypes ast imports declared d₂ := by
  unfold resolveTypes
  have : resolveStep imports declared d₁ = resolveStep imports declared d₂ := by
    funext s t
    unfold resolveStep
    rw [resolveKind_congr imports declared d₁ d₂ h]
  rw [this]

theorem importUsageDiag_congr (resolved : List String) (d₁ d₂ : Defined) (e : String × Import)
    (h : d₁.get e.1 = d₂.get e.1) : importUsageDiag resolved d₁ e = importUsageDiag resolved d₂ e := by
  unfold importUsageDiag; rw [h]

theorem flatMap_congr' {α β} (l : List α) (f g : α → List β) (h : ∀ x ∈ l, f x = g x) :
    l.flatMap f = l.flatMap g := by
  induction l with
  | nil => rfl
  | cons x xs ih =>
    simp only [List.flatMap_cons]
    rw [h x (by simp), ih (fun y hy => h y (List.mem_cons_of_mem _ hy))]

theorem checkImports_congr (ho : HashOrder) (imports : List Import) (resolved : List String) (d₁ d₂ : Defined)
    (h : ∀ k ∈ imports.map Import.qname, d₁.get k = d₂.get k) :
    checkImports ho imports resolved d₁ = checkImports ho imports resolved d₂ := by
  have hm := (Props.C06.checkImports_spec ho imports resolved d₁).1
  unfold checkImports at hm ⊢
  simp only at hm ⊢
  congr 1
  congr 1
  apply flatMap_congr'
  intro e he
  apply importUsageDiag_congr
  have he' : e ∈ (importsFold imports).1 := (ho.perm _).mem_iff.mp he
  rw [hm] at he'
  obtain ⟨i, hi, rfl⟩ := List.mem_map.mp he'
  apply h
  exact List.mem_map.mpr ⟨i, Props.C06.mem_firstsAux Import.qname [] imports i hi, rfl⟩

/-- **Locality.** The result of validating a file is the same under any two sets of defined keys
    that agree on the keys the file imports — for every hash order. -/
theorem file_depends_on_import_kinds (ho : HashOrder) (d₁ d₂ : Defined) (fr : FileResult)
    (h : ∀ k ∈ importKeys fr, d₁.get k = d₂.get k) :
    validateFile ho d₁ fr = validateFile ho d₂ fr := by
  unfold validateFile
  cases hast : fr.ast with
  | none => rfl
  | some ast =>
    simp only
    have h' : ∀ k ∈ ast.imports.map Import.qname, d₁.get k = d₂.get k := by
      simpa [importKeys, hast] using h
    have hv : validateGroups ho d₁ fr.diags ast = validateGroups ho d₂ fr.diags ast := by
      unfold validateGroups
      simp only
      rw [resolveTypes_congr ast _ _ d₁ d₂ h']
      have himp : (resolveTypes ast (ast.imports.map Import.qname) (ast.declaredParcelables.map Import.qname) d₂).1.imports
          = ast.imports := by
        rw [Props.C05.resolveTypes_eq]; exact (Props.C06.mapTypes_imports _ _).1
      rw [checkImports_congr ho _ _ d₁ d₂ (by rw [himp]; exact h')]
    rw [hv]

/-- what validation knows about the other files is computed from their headers alone
    (package + item name, item kind) -/
theorem defined_depends_on_headers (files₁ files₂ : List FileResult)
    (h : files₁.map header = files₂.map header) : collectItemKeys files₁ = collectItemKeys files₂ := by
  unfold collectItemKeys
  have : ∀ (l : List FileResult) (d : Defined),
      l.foldl (fun d fr => match fr.ast with
        | some a => Defined.insertMin d a.key a.item.kind
        | none => d) d
      = (l.map header).foldl (fun d hd => match hd with
        | some (k, v) => Defined.insertMin d k v
        | none => d) d := by
    intro l
    induction l with
    | nil => intro d; rfl
    | cons fr rest ih =>
      intro d
      simp only [List.foldl_cons, List.map_cons]
      rw [ih]
      congr 1
      unfold header
      cases fr.ast <;> rfl
  have e1 := this files₁ []
  have e2 := this files₂ []
  rw [h] at e1
  exact e1.trans e2.symm

private def exR : Range := ⟨⟨0, 1, 1⟩, ⟨1, 1, 2⟩⟩
private def exFile : FileResult :=
  ⟨"x", some ⟨⟨"p", exR, exR⟩, [⟨"a", "Foo", exR, exR⟩], [],
    .parcelable ⟨"P", [.field ⟨"f", .mk "Foo" .unresolved [] exR exR, none, [], none, exR, exR⟩], [], none, exR, exR⟩⟩, []⟩

/-- negative control (by evaluation): changing the kind registered under an imported key changes
    the result -/
example :
    (validateFile HashOrder.id [("a.Foo", .interface)] exFile).toOption
      ≠ (validateFile HashOrder.id [("a.Foo", .enum)] exFile).toOption := by
  decide

end Aidl.Props.C13
