import AidlVerif.Props.RegexSound
import AidlVerif.Props.JavadocAttach

/-!
# C18 — "the words themselves are preserved exactly", for every comment body

`words s`: the text `s` with the decoration characters of a doc comment (space, tab, CR, LF, `*`)
removed. `parseJavadoc_words`: for EVERY body (any Unicode content, any layout, any number of
paragraphs and tags, any star bound the regex steps happen to be run with),
`words (parse_javadoc body) = words body` — the normalisation only ever deletes, inserts or
replaces decoration characters; no other character is lost, added, reordered or changed.

The proof goes through the declarative semantics of the three regular expressions
(`RegexSound.findFrom_sound`): what `split` drops and what `replace_all` replaces is a word of the
expression's regular language, and those consist of decoration characters (for `([^\n])[ \t]*@`:
one kept character, blanks, `@`, replaced by the kept character, a newline and `@`).

`doc_words_verbatim`: combined with `JavadocAttach.getJavadoc_doc` — the documentation of a construct
directly preceded by a doc comment has exactly the words of that comment's body.
-/

namespace Aidl.Props.JavadocWords
open Aidl.Regex Aidl.Javadoc Aidl.Props.JavadocTotal Aidl.Props.RegexSound Aidl.Props.JavadocAttach

def words (s : List Char) : List Char := s.filter (fun c => !isTrimChar c)

theorem words_append (a b : List Char) : words (a ++ b) = words a ++ words b := by
  unfold words; exact List.filter_append ..

theorem words_nil : words [] = [] := rfl

theorem words_all_trim (w : List Char) (h : ∀ c ∈ w, isTrimChar c = true) : words w = [] := by
  unfold words
  rw [List.filter_eq_nil_iff]
  intro c hc
  simp [h c hc]

theorem words_dropWhile (l : List Char) : words (l.dropWhile isTrimChar) = words l := by
  induction l with
  | nil => rfl
  | cons c cs ih =>
    by_cases hc : isTrimChar c = true
    · rw [List.dropWhile_cons_of_pos hc, ih]
      unfold words
      rw [List.filter_cons_of_neg (by simp [hc])]
    · rw [List.dropWhile_cons_of_neg hc]

theorem words_reverse (l : List Char) : words l.reverse = (words l).reverse := by
  unfold words; exact List.filter_reverse ..

theorem words_trimMatches (p : List Char) : words (trimMatches p) = words p := by
  unfold trimMatches
  rw [words_reverse, words_dropWhile, words_reverse, words_dropWhile, List.reverse_reverse]

theorem words_intercalate (l : List (List Char)) : words (intercalate ['\n'] l) = (l.map words).flatten := by
  induction l with
  | nil => rfl
  | cons a rest ih =>
    cases rest with
    | nil => simp [intercalate]
    | cons b rest' =>
      show words (a ++ ['\n'] ++ intercalate ['\n'] (b :: rest')) = _
      rw [words_append, words_append, ih]
      have : words ['\n'] = [] := by decide
      rw [this]
      simp

/-! ### byte slicing at the end of a prefix -/

theorem takeBytes_prefix : ∀ (pre rest : List Char), takeBytes (utf8Len pre) (pre ++ rest) = pre
  | [], rest => by rw [utf8Len_nil]; cases rest <;> rfl
  | c :: cs, rest => by
    have hpos := utf8Size_pos c
    obtain ⟨n, hn⟩ : ∃ n, utf8Len (c :: cs) = n + 1 := ⟨utf8Len (c :: cs) - 1, by rw [utf8Len_cons]; omega⟩
    rw [hn, List.cons_append, takeBytes]
    have : n + 1 - c.utf8Size = utf8Len cs := by rw [utf8Len_cons] at hn; omega
    rw [this, takeBytes_prefix cs rest]

theorem dropBytes_prefix : ∀ (pre rest : List Char), dropBytes (utf8Len pre) (pre ++ rest) = rest
  | [], rest => by rw [utf8Len_nil]; cases rest <;> rfl
  | c :: cs, rest => by
    have hpos := utf8Size_pos c
    obtain ⟨n, hn⟩ : ∃ n, utf8Len (c :: cs) = n + 1 := ⟨utf8Len (c :: cs) - 1, by rw [utf8Len_cons]; omega⟩
    rw [hn, List.cons_append, dropBytes]
    have : n + 1 - c.utf8Size = utf8Len cs := by rw [utf8Len_cons] at hn; omega
    rw [this, dropBytes_prefix cs rest]

/-- what `find` reports, in terms of the three pieces of the text -/
theorem find_pieces (r : Re) (fuel : Nat) (s : List Char) (a b : Nat) (h : findFrom r fuel s 0 = some (a, b)) :
    ∃ pre w post, s = pre ++ w ++ post ∧ Matches r w ∧ takeBytes a s = pre
      ∧ takeBytes (b - a) (dropBytes a s) = w ∧ dropBytes b s = post := by
  obtain ⟨pre, w, post, hs, hw, ha, hb⟩ := findFrom_sound r fuel s 0 a b h
  have ha' : a = utf8Len pre := by omega
  subst ha' hb hs
  refine ⟨pre, w, post, rfl, hw, ?_, ?_, ?_⟩
  · rw [List.append_assoc, takeBytes_prefix]
  · rw [List.append_assoc, dropBytes_prefix, Nat.add_sub_cancel_left, takeBytes_prefix]
  · rw [← utf8Len_append, dropBytes_prefix]

/-! ### `split` and `replace_all` -/

def IsTrim (c : Char) : Prop := isTrimChar c = true

/-- splitting at matches that consist of decoration characters loses no word -/
theorem words_splitRe (r : Re) (hr : clsAll IsTrim r) :
    ∀ (fuel : Nat) (s : List Char), ((splitRe r fuel s).map words).flatten = words s := by
  intro fuel
  induction fuel with
  | zero => intro s; simp [splitRe]
  | succ fuel ih =>
    intro s
    rw [splitRe]
    split
    · rename_i a b hf
      split
      · simp
      · obtain ⟨pre, w, post, hs, hw, hta, _, hdb⟩ := find_pieces r _ s a b hf
        rw [List.map_cons, List.flatten_cons, ih, hta, hdb]
        conv => rhs; rw [hs]
        rw [words_append, words_append, words_all_trim w (hw.all_chars IsTrim hr)]
        simp
    · simp

/-- replacing every match by a text with the same words keeps the words -/
theorem words_replaceAll (r : Re) (rep : List Char → List Char) (hrep : ∀ w, Matches r w → words (rep w) = words w) :
    ∀ (fuel : Nat) (s : List Char), words (replaceAll r rep fuel s) = words s := by
  intro fuel
  induction fuel with
  | zero => intro s; simp [replaceAll]
  | succ fuel ih =>
    intro s
    rw [replaceAll]
    split
    · rename_i a b hf
      split
      · rfl
      · obtain ⟨pre, w, post, hs, hw, hta, htw, hdb⟩ := find_pieces r _ s a b hf
        rw [words_append, words_append, ih, hta, htw, hdb, hrep w hw]
        conv => rhs; rw [hs]
        rw [words_append, words_append]
    · rfl

/-! ### the three expressions of `parse_javadoc` -/

theorem char_of_toNat (c : Char) (n : Nat) (h : c.toNat = n) : c = Char.ofNat n := by
  rw [← h, Char.ofNat_toNat]

/-- a character of `[ \t\r\n*]` (or a sub-class) is a decoration character -/
theorem trim_of_inCls (rs : List (Nat × Nat)) (hrs : ∀ r ∈ rs, r.1 = r.2 ∧ (r.1 = 32 ∨ r.1 = 9 ∨ r.1 = 13 ∨ r.1 = 10 ∨ r.1 = 42))
    (c : Char) (h : inCls rs c = true) : IsTrim c := by
  unfold inCls at h
  obtain ⟨r, hr, hc⟩ := List.any_eq_true.mp h
  obtain ⟨heq, hv⟩ := hrs r hr
  simp only [Bool.and_eq_true, decide_eq_true_eq] at hc
  have hn : c.toNat = r.1 := by omega
  rcases hv with h1 | h1 | h1 | h1 | h1 <;> (rw [h1] at hn; rw [char_of_toNat c _ hn]; show isTrimChar _ = true; decide)

theorem reParagraph_trim : clsAll IsTrim reParagraph := by
  simp only [reParagraph, Re.seqs, Re.opt, Re.chr, clsAll]
  repeat' apply And.intro
  all_goals first | trivial | (apply trim_of_inCls; decide)

theorem reLineNoise_trim : clsAll IsTrim reLineNoise := by
  simp only [reLineNoise, Re.seqs, Re.chr, clsAll]
  repeat' apply And.intro
  all_goals first | trivial | (apply trim_of_inCls; decide)

/-- a match of `([^\n])[ \t]*@` is one character, blanks, `@` -/
theorem reBeforeAt_shape (w : List Char) (h : Matches reBeforeAt w) :
    ∃ c bl, w = c :: (bl ++ ['@']) ∧ ∀ x ∈ bl, IsTrim x := by
  unfold reBeforeAt Re.seqs Re.chr at h
  cases h with
  | seq _ _ u v hu hv =>
    cases hu with
    | cls _ c hc =>
      cases hv with
      | seq _ _ u2 v2 hu2 hv2 =>
        cases hv2 with
        | cls _ d hd =>
          have hat : d = '@' := by
            simp only [inCls, List.any_cons, List.any_nil, Bool.or_false, Bool.and_eq_true, decide_eq_true_eq] at hd
            have : d.toNat = ('@' : Char).toNat := by omega
            rw [char_of_toNat d _ this, Char.ofNat_toNat]
          subst hat
          exact ⟨c, u2, rfl, hu2.all_chars IsTrim (by
            simp only [ws4, clsAll]
            apply trim_of_inCls; decide)⟩

theorem reBeforeAt_rep (w : List Char) (h : Matches reBeforeAt w) : words (w.take 1 ++ ['\n', '@']) = words w := by
  obtain ⟨c, bl, rfl, hbl⟩ := reBeforeAt_shape w h
  have h1 : (c :: (bl ++ ['@'])).take 1 = [c] := rfl
  rw [h1]
  have h2 : c :: (bl ++ ['@']) = [c] ++ (bl ++ ['@']) := rfl
  rw [h2, words_append, words_append, words_append, words_all_trim bl hbl]
  have : words ['\n', '@'] = words ['@'] := by decide
  rw [this]; simp

/-- **The words are preserved exactly — for every body.** -/
theorem parseJavadoc_words (s : List Char) : words (parseJavadoc s) = words s := by
  unfold parseJavadoc
  simp only
  rw [words_intercalate, List.map_map]
  have : (words ∘ fun p => replaceAll reBeforeAt (fun m => List.take 1 m ++ ['\n', '@']) (s.length + 1)
        (replaceAll reLineNoise (fun _ => [' ']) (s.length + 1) (trimMatches p))) = words := by
    funext p
    simp only [Function.comp]
    rw [words_replaceAll _ _ reBeforeAt_rep, words_replaceAll _ _ (fun w hw => ?_), words_trimMatches]
    rw [words_all_trim w (hw.all_chars IsTrim reLineNoise_trim)]
    decide
  rw [this]
  exact words_splitRe reParagraph reParagraph_trim _ s

/-- **The documentation of a construct directly preceded by a doc comment has exactly the words of
    that comment's body** (every text before it, every body without `/` that does not begin with
    `*`, whitespace and ordinary comments in between, any text after). -/
theorem doc_words_verbatim (pre body rest : List Char) (ps : List Piece)
    (hbody : ∀ x ∈ body, x ≠ '/') (hhead : body.head? ≠ some '*') (hps : ∀ p ∈ ps, p.ok) :
    ∃ d, getJavadoc (pre ++ ['/', '*', '*'] ++ body ++ ['*', '/'] ++ flat ps ++ rest)
        (utf8Len (pre ++ ['/', '*', '*'] ++ body ++ ['*', '/'] ++ flat ps)) = .ok (some d)
      ∧ words d.toList = words body := by
  refine ⟨_, getJavadoc_doc pre body rest ps hbody hhead hps, ?_⟩
  rw [String.toList_ofList]
  exact parseJavadoc_words body

/-! ### one-line bodies are taken verbatim -/

/-- every word of the language of `r` contains a character with `P`, when … -/
def needs (P : Char → Prop) : Re → Prop
  | .eps => False
  | .cls rs => ∀ c, inCls rs c = true → P c
  | .seq a b => needs P a ∨ needs P b
  | .alt a b => needs P a ∧ needs P b
  | .star _ => False

theorem Matches.has_char (P : Char → Prop) {r : Re} {w : List Char} (h : Matches r w) : needs P r → ∃ c ∈ w, P c := by
  induction h with
  | eps => intro hn; exact hn.elim
  | cls rs c hin => intro hn; exact ⟨c, by simp, hn c hin⟩
  | seq a b u v _ _ iha ihb =>
    intro hn
    rcases hn with hn | hn
    · obtain ⟨c, hc, hp⟩ := iha hn; exact ⟨c, List.mem_append_left _ hc, hp⟩
    · obtain ⟨c, hc, hp⟩ := ihb hn; exact ⟨c, List.mem_append_right _ hc, hp⟩
  | altL a b u _ ih => intro hn; exact ih hn.1
  | altR a b u _ ih => intro hn; exact ih hn.2
  | starNil a => intro hn; exact hn.elim
  | starCons a u v _ _ _ _ => intro hn; exact hn.elim

/-- no match in a text that lacks the character every word of the expression needs -/
theorem findFrom_none_of_lacks (P : Char → Prop) (r : Re) (hr : needs P r) (fuel : Nat) (s : List Char)
    (hs : ∀ c ∈ s, ¬ P c) : findFrom r fuel s 0 = none := by
  cases h : findFrom r fuel s 0 with
  | none => rfl
  | some ab =>
    obtain ⟨a, b⟩ := ab
    obtain ⟨pre, w, post, hsw, hw, _, _⟩ := findFrom_sound r fuel s 0 a b h
    obtain ⟨c, hc, hp⟩ := Matches.has_char P hw hr
    exact absurd hp (hs c (by rw [hsw]; simp [hc]))

theorem eq_of_inCls_single (n : Nat) (c : Char) (h : inCls [(n, n)] c = true) : c = Char.ofNat n := by
  simp only [inCls, List.any_cons, List.any_nil, Bool.or_false, Bool.and_eq_true, decide_eq_true_eq] at h
  exact char_of_toNat c n (by omega)

theorem reParagraph_needs_nl : needs (· = '\n') reParagraph := by
  simp only [reParagraph, Re.seqs, Re.opt, Re.chr, needs]
  right; left
  intro c hc
  exact eq_of_inCls_single _ c hc

theorem reLineNoise_needs_nl : needs (· = '\n') reLineNoise := by
  simp only [reLineNoise, Re.seqs, Re.chr, needs]
  right; left
  intro c hc
  exact eq_of_inCls_single _ c hc

theorem reBeforeAt_needs_at : needs (· = '@') reBeforeAt := by
  simp only [reBeforeAt, Re.seqs, Re.chr, needs]
  right; right
  intro c hc
  exact eq_of_inCls_single _ c hc

theorem splitRe_none (r : Re) (fuel : Nat) (s : List Char) (h : findFrom r (utf8Len s) s 0 = none) : splitRe r fuel s = [s] := by
  cases fuel with
  | zero => rfl
  | succ n => rw [splitRe, h]

theorem replaceAll_none (r : Re) (rep : List Char → List Char) (fuel : Nat) (s : List Char)
    (h : findFrom r (utf8Len s) s 0 = none) : replaceAll r rep fuel s = s := by
  cases fuel with
  | zero => rfl
  | succ n => rw [replaceAll, h]

theorem mem_trimMatches {c : Char} {s : List Char} (h : c ∈ trimMatches s) : c ∈ s := by
  unfold trimMatches at h
  have h1 := List.mem_reverse.mp h
  have h2 := (List.dropWhile_sublist _).subset h1
  have h3 := List.mem_reverse.mp h2
  exact (List.dropWhile_sublist _).subset h3

/-- **A one-line body without `@` is taken verbatim**: `/** text */` documents its construct with
    `text`, trimmed of surrounding blanks and stars — inner spacing, punctuation and any Unicode
    content untouched. -/
theorem parseJavadoc_one_line (s : List Char) (hnl : '\n' ∉ s) (hat : '@' ∉ s) : parseJavadoc s = trimMatches s := by
  have hs1 : ∀ c ∈ s, ¬ (c = '\n') := fun c hc he => hnl (he ▸ hc)
  have ht1 : ∀ c ∈ trimMatches s, ¬ (c = '\n') := fun c hc => hs1 c (mem_trimMatches hc)
  have ht2 : ∀ c ∈ trimMatches s, ¬ (c = '@') := fun c hc he => hat (he ▸ mem_trimMatches hc)
  unfold parseJavadoc
  simp only
  rw [splitRe_none _ _ _ (findFrom_none_of_lacks _ _ reParagraph_needs_nl _ s hs1)]
  simp only [List.map_cons, List.map_nil, intercalate]
  rw [replaceAll_none reLineNoise _ _ _ (findFrom_none_of_lacks _ _ reLineNoise_needs_nl _ _ ht1)]
  rw [replaceAll_none reBeforeAt _ _ _ (findFrom_none_of_lacks _ _ reBeforeAt_needs_at _ _ ht2)]

/-- … so a construct directly preceded by a one-line doc comment is documented with that line, verbatim -/
theorem doc_one_line_verbatim (pre body rest : List Char) (ps : List Piece)
    (hbody : ∀ x ∈ body, x ≠ '/') (hhead : body.head? ≠ some '*') (hps : ∀ p ∈ ps, p.ok)
    (hnl : '\n' ∉ body) (hat : '@' ∉ body) :
    getJavadoc (pre ++ ['/', '*', '*'] ++ body ++ ['*', '/'] ++ flat ps ++ rest)
        (utf8Len (pre ++ ['/', '*', '*'] ++ body ++ ['*', '/'] ++ flat ps))
      = .ok (some (String.ofList (trimMatches body))) := by
  rw [getJavadoc_doc pre body rest ps hbody hhead hps, parseJavadoc_one_line body hnl hat]

example : parseJavadoc " Größe  der 🎉, x=1 ".toList = "Größe  der 🎉, x=1".toList := by
  rw [parseJavadoc_one_line " Größe  der 🎉, x=1 ".toList (by decide) (by decide)]
  decide +kernel

/-- non-vacuity / sanity (kernel evaluation): words of a CRLF, non-ASCII body -/
example : words "\r\n * Größe 日本\r\n * @param x é\r\n ".toList = "Größe日本@paramxé".toList := by decide +kernel

end Aidl.Props.JavadocWords
