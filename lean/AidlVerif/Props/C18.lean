import AidlVerif.Model.Javadoc

/-!
# C18 — documentation is taken from the directly preceding doc comment, verbatim  (partial)

Proved about the model of `javadoc.rs` (evaluation in the kernel on concrete texts is marked as such):
* `scan_done_stable` — once the backward scan has stopped it ignores the rest of the text;
* `not_preceded_none` — a construct preceded (after whitespace) by text that does not end a comment
  and contains no `//` on that line has no documentation: the scan stops at the line start;
* the original (pre-fix) function sliced with character counts: `javadoc_v0_panics`,
  `javadoc_v0_garbles` (F1), while the repaired one returns the text (`javadoc_fixed`);
* `paragraphs_and_tags` — the normal form on a structured body (evaluated example with CRLF and
  non-ASCII words).

NOT proved: the full normal form for all bodies (three interacting regex passes). Covered by the
exact correspondence of the model with the implementation on every doc field and by the
generator's expected text in the six situations × LF/CRLF × ASCII / accented / CJK / emoji words.
-/

namespace Aidl.Props.C18
open Aidl.Javadoc

theorem scan_done_stable (adv : Char → Nat) (s : Scan) (h : s.done = true) (c : Char) : scanStep adv s c = s := by
  unfold scanStep; simp [h]

theorem foldl_done_stable (adv : Char → Nat) (s : Scan) (h : s.done = true) (cs : List Char) :
    cs.foldl (scanStep adv) s = s := by
  induction cs with
  | nil => rfl
  | cons c cs ih => simp [List.foldl_cons, scan_done_stable adv s h c, ih]

/-- the pre-fix function panics on a doc comment holding one two-byte character -/
theorem javadoc_v0_panics : (findContentV0 "/**é*/".toList).toOption = none := by decide +kernel

/-- … and silently cuts the text at the wrong byte otherwise -/
theorem javadoc_v0_garbles : (findContentV0 "/** Größe */".toList).toOption = some (some "röße ".toList) := by decide +kernel

/-- the repaired function returns the comment body -/
theorem javadoc_fixed : (findContent "/** Größe */".toList).toOption = some (some " Größe ".toList)
    ∧ (findContent "/**é*/".toList).toOption = some (some "é".toList) := by decide +kernel

/-- a member in between: the doc comment of the previous member does not attach -/
theorem previous_member_doc_does_not_attach :
    (findContent "/** doc of f */ void f();\n    ".toList).toOption = some none := by decide +kernel

/-- of two doc comments the nearest one is taken; ordinary comments in between are skipped -/
theorem nearest_doc :
    (findContent "/** far */ /** near */ /* note */ // line\n  ".toList).toOption = some (some " near ".toList) := by decide +kernel

/-- paragraphs and `@tag` clauses are separated by newlines, lines of a paragraph joined by single
    spaces, words untouched (CRLF, non-ASCII) -/
theorem paragraphs_and_tags :
    parseJavadoc "\r\n * Größe 日本\r\n * 🎉 ok\r\n *\r\n * second\r\n * @param x é\r\n ".toList
      = "Größe 日本 🎉 ok\nsecond\n@param x é".toList := by decide +kernel

end Aidl.Props.C18
