import AidlVerif.Props.Typed

/-!
# The hand-written actions are well typed

For every label: arguments of the declared parameter types in, a value of the declared return type
out (or an allowed stop) — never a `shape` or `table` panic.
-/

namespace Aidl.Props.Typed
open Aidl Aidl.Actions Aidl.Typing Aidl.Lexer

variable {env : Env} {E : Prop}

theorem pur_nth {tys : List ATy} {args : List ArgV} (h : ArgsTyped E tys args) {i : Nat} {t : VTy}
    (ht : tys[i]? = some (.triple t)) : Pur env (nth args i) (HasTy E t) := by
  obtain ⟨a, ha, hty⟩ := h.get ht
  unfold nth
  rw [ha]
  cases a with
  | triple s v e => exact Pur.pure _ hty
  | locRef n => exact hty.elim

theorem pur_asLoc {v : Val} (h : HasTy E .loc v) : Pur env (asLoc v) (fun _ => True) := by
  obtain ⟨n, rfl⟩ := (hasTy_loc E v).mp h; exact Pur.pure _ trivial
theorem pur_asTok {v : Val} (h : HasTy E .tok v) : Pur env (asTok v) (fun _ => True) := by
  obtain ⟨n, rfl⟩ := (hasTy_tok E v).mp h; exact Pur.pure _ trivial
theorem pur_asStr {v : Val} (h : HasTy E .str v) : Pur env (asStr v) (fun _ => True) := by
  obtain ⟨n, rfl⟩ := (hasTy_str E v).mp h; exact Pur.pure _ trivial
theorem pur_asTy {v : Val} (h : HasTy E .ty v) : Pur env (asTy v) TyWF := by
  obtain ⟨n, rfl, hn⟩ := (hasTy_ty E v).mp h; exact Pur.pure _ hn
theorem pur_asPackageV {v : Val} (h : HasTy E .package v) : Pur env (asPackageV v) (fun _ => True) := by
  obtain ⟨n, rfl⟩ := (hasTy_package E v).mp h; exact Pur.pure _ trivial
theorem pur_asImportV {v : Val} (h : HasTy E .import_ v) : Pur env (asImportV v) (fun _ => True) := by
  obtain ⟨n, rfl⟩ := (hasTy_import_ E v).mp h; exact Pur.pure _ trivial
theorem pur_asItemV {v : Val} (h : HasTy E .item v) : Pur env (asItemV v) ItemWF := by
  obtain ⟨n, rfl, hn⟩ := (hasTy_item E v).mp h; exact Pur.pure _ hn
theorem pur_asIfaceV {v : Val} (h : HasTy E .iface v) : Pur env (asIfaceV v) (fun i => ItemWF (.interface i)) := by
  obtain ⟨n, rfl, hn⟩ := (hasTy_iface E v).mp h; exact Pur.pure _ hn
theorem pur_asParcV {v : Val} (h : HasTy E .parc v) : Pur env (asParcV v) (fun i => ItemWF (.parcelable i)) := by
  obtain ⟨n, rfl, hn⟩ := (hasTy_parc E v).mp h; exact Pur.pure _ hn
theorem pur_asEnmV {v : Val} (h : HasTy E .enm v) : Pur env (asEnmV v) (fun _ => True) := by
  obtain ⟨n, rfl⟩ := (hasTy_enm E v).mp h; exact Pur.pure _ trivial
theorem pur_asMethodV {v : Val} (h : HasTy E .method v) :
    Pur env (asMethodV v) (fun m => TyWF m.returnType ∧ ∀ a ∈ m.args, TyWF a.argType) := by
  obtain ⟨n, rfl, hn⟩ := (hasTy_method E v).mp h; exact Pur.pure _ hn
theorem pur_asConstV {v : Val} (h : HasTy E .const v) : Pur env (asConstV v) (fun c => TyWF c.constType) := by
  obtain ⟨n, rfl, hn⟩ := (hasTy_const E v).mp h; exact Pur.pure _ hn
theorem pur_asFieldV {v : Val} (h : HasTy E .field v) : Pur env (asFieldV v) (fun f => TyWF f.fieldType) := by
  obtain ⟨n, rfl, hn⟩ := (hasTy_field E v).mp h; exact Pur.pure _ hn
theorem pur_asEnumElV {v : Val} (h : HasTy E .enumEl v) : Pur env (asEnumElV v) (fun _ => True) := by
  obtain ⟨n, rfl⟩ := (hasTy_enumEl E v).mp h; exact Pur.pure _ trivial
theorem pur_asDirV {v : Val} (h : HasTy E .dir v) : Pur env (asDirV v) (fun _ => True) := by
  obtain ⟨n, rfl⟩ := (hasTy_dir E v).mp h; exact Pur.pure _ trivial
theorem pur_asStrPairV {v : Val} (h : HasTy E (.pair .str .str) v) : Pur env (asStrPairV v) (fun _ => True) := by
  obtain ⟨x, y, rfl, hx, hy⟩ := (hasTy_pair E _ _ v).mp h
  obtain ⟨a, rfl⟩ := (hasTy_str E x).mp hx
  obtain ⟨b, rfl⟩ := (hasTy_str E y).mp hy
  exact Pur.pure _ trivial
theorem pur_asLocTokV {v : Val} (h : HasTy E (.pair .loc .tok) v) : Pur env (asLocTokV v) (fun _ => True) := by
  obtain ⟨x, y, rfl, hx, hy⟩ := (hasTy_pair E _ _ v).mp h
  obtain ⟨a, rfl⟩ := (hasTy_loc E x).mp hx
  obtain ⟨b, rfl⟩ := (hasTy_tok E y).mp hy
  exact Pur.pure _ trivial
theorem pur_asAnnParamV {v : Val} (h : HasTy E (.pair .str (.opt .str)) v) : Pur env (asAnnParamV v) (fun _ => True) := by
  obtain ⟨x, y, rfl, hx, hy⟩ := (hasTy_pair E _ _ v).mp h
  obtain ⟨a, rfl⟩ := (hasTy_str E x).mp hx
  rcases (hasTy_opt E _ y).mp hy with rfl | ⟨w, rfl, hw⟩
  · exact Pur.pure _ trivial
  · obtain ⟨b, rfl⟩ := (hasTy_str E w).mp hw
    exact Pur.pure _ trivial
theorem pur_asArgV {v : Val} (h : HasTy E .arg v) : Pur env (asArgV v) (fun a => TyWF a.argType) := by
  obtain ⟨n, rfl, hn⟩ := (hasTy_arg E v).mp h; exact Pur.pure _ hn
theorem pur_asIelV {v : Val} (h : HasTy E .iel v) : Pur env (asIelV v) (fun e => ∀ t ∈ e.topTypes, TyWF t) := by
  obtain ⟨n, rfl, hn⟩ := (hasTy_iel E v).mp h; exact Pur.pure _ hn
theorem pur_asPelV {v : Val} (h : HasTy E .pel v) : Pur env (asPelV v) (fun e => ∀ t ∈ e.topTypes, TyWF t) := by
  obtain ⟨n, rfl, hn⟩ := (hasTy_pel E v).mp h; exact Pur.pure _ hn

theorem pur_locAt {tys : List ATy} {args : List ArgV} (h : ArgsTyped E tys args) {i : Nat}
    (ht : tys[i]? = some (.triple .loc)) : Pur env (locAt args i) (fun _ => True) := by
  unfold locAt
  exact Pur.bind (pur_nth h ht) (fun v hv => pur_asLoc hv)

theorem pur_tokAt {tys : List ATy} {args : List ArgV} (h : ArgsTyped E tys args) {i : Nat}
    (ht : tys[i]? = some (.triple .tok)) : Pur env (tokAt args i) (fun _ => True) := by
  unfold tokAt
  exact Pur.bind (pur_nth h ht) (fun v hv => pur_asTok hv)

theorem pur_mkPos (n : Nat) : Pur env (mkPos n) (fun _ => True) := by
  intro ds
  have he := PL.mkPos_eq env ds n
  unfold PL.runM at he
  rw [he]
  cases env.lineCol n with
  | none => exact ⟨by simp, by simp⟩
  | some lc => exact ⟨rfl, trivial⟩

theorem pur_mkRange (a b : Nat) : Pur env (mkRange a b) (fun _ => True) := by
  unfold mkRange
  exact Pur.bind (pur_mkPos a) (fun _ _ => Pur.bind (pur_mkPos b) (fun _ _ => Pur.pure _ trivial))

theorem pur_getJavadoc (n : Nat) : Pur env (Actions.getJavadoc n) (fun _ => True) := by
  unfold Actions.getJavadoc
  refine Pur.bind (P := fun _ => True) (fun _ => ⟨rfl, trivial⟩) (fun e _ => ?_)
  cases Javadoc.getJavadoc e.text n with
  | ok d => exact Pur.pure _ trivial
  | error m => exact Pur.bad _ _ (by decide) (by decide) (by decide)

theorem pur_asList {t : VTy} {v : Val} (h : HasTy E (.list t) v) : Pur env (asList v) (fun l => ∀ x ∈ l, HasTy E t x) := by
  obtain ⟨l, rfl, hl⟩ := (hasTy_list E t v).mp h; exact Pur.pure _ hl

theorem pur_asOpt {t : VTy} {v : Val} (h : HasTy E (.opt t) v) : Pur env (asOpt v) (fun o => ∀ w, o = some w → HasTy E t w) := by
  rcases (hasTy_opt E t v).mp h with rfl | ⟨w, rfl, hw⟩
  · exact Pur.pure _ (by intro w hw; cases hw)
  · exact Pur.pure _ (by intro w' hw'; cases hw'; exact hw)

theorem pur_asOptNS {t : VTy} {v : Val} (h : HasTy E (.optNS t) v) :
    Pur env (asOpt v) (fun o => (o = none → E) ∧ ∀ w, o = some w → HasTy E t w) := by
  rcases (hasTy_optNS E t v).mp h with ⟨rfl, he⟩ | ⟨w, rfl, hw⟩
  · exact Pur.pure _ ⟨fun _ => he, by intro w hw; cases hw⟩
  · exact Pur.pure _ ⟨(by intro h'; cases h'), (by intro w' hw'; cases hw'; exact hw)⟩

theorem pur_asAnns {v : Val} (h : HasTy E (.list .ann) v) : Pur env (asAnns v) (fun _ => True) := by
  unfold asAnns
  refine Pur.bind (pur_asList h) (fun l hl => ?_)
  refine Pur.mono (Pur.mapM (P := fun _ => True) _ l ?_) (fun _ _ => trivial)
  intro a ha
  obtain ⟨x, rfl⟩ := (hasTy_ann E a).mp (hl a ha)
  exact Pur.pure _ trivial

theorem pur_optTokStr {v : Val} (h : HasTy E (.opt .tok) v) : Pur env (optTokStr v) (fun _ => True) := by
  unfold optTokStr
  refine Pur.bind (pur_asOpt h) (fun o ho => ?_)
  cases o with
  | none => exact Pur.pure _ trivial
  | some t => exact Pur.map (pur_asTok (ho t rfl)) (fun _ _ => trivial)

theorem pur_optTokStr_d {v : Val} (h : HasTy E (.opt .dtok) v) :
    Pur env (optTokStr v) (fun o => o = none ∨ o = some "in" ∨ o = some "out" ∨ o = some "inout") := by
  unfold optTokStr
  refine Pur.bind (pur_asOpt h) (fun o ho => ?_)
  cases o with
  | none => exact Pur.pure _ (Or.inl rfl)
  | some t =>
    obtain ⟨x, rfl, hx⟩ := (hasTy_dtok E t).mp (ho t rfl)
    exact Pur.map (P := fun s => s = x) (Pur.pure x rfl) (by intro a ha; subst ha; rcases hx with rfl | rfl | rfl <;> simp)

theorem pur_joinToks {v : Val} (h : HasTy E (.list .tok) v) : Pur env (joinToks v) (fun _ => True) := by
  unfold joinToks
  refine Pur.bind (pur_asList h) (fun l hl => ?_)
  refine Pur.bind (Pur.mapM (P := fun _ => True) _ l (fun a ha => pur_asTok (hl a ha))) (fun _ _ => ?_)
  exact Pur.pure _ trivial

theorem pur_flattenOptsNS {t : VTy} {v : Val} (h : HasTy E (.list (.optNS t)) v) :
    Pur env (flattenOpts v) (fun l => ∀ x ∈ l, HasTy E t x) := by
  unfold flattenOpts
  refine Pur.bind (pur_asList h) (fun l hl => ?_)
  refine Pur.bind (Pur.mapM (P := fun o => ∀ w, o = some w → HasTy E t w) _ l
    (fun a ha => Pur.mono (pur_asOptNS (hl a ha)) (fun _ hh => hh.2))) (fun os hos => ?_)
  refine Pur.pure _ ?_
  intro x hx
  obtain ⟨o, ho, hox⟩ := List.mem_filterMap.mp hx
  exact hos o ho x hox

theorem pur_simpleType (name : String) (k : TypeKind) (a b : Nat) (hk : leafKind k = true) :
    Pur env (simpleType name k a b) (HasTy E .ty) := by
  unfold simpleType
  exact Pur.bind (pur_mkRange a b) (fun _ _ => Pur.pure _ (TyWF.leaf _ _ _ _ hk))


/-! ### computations that may append diagnostics -/

/-- as `Pur`, but the diagnostics may grow -/
def PurE {α} (env : Env) (x : M α) (P : α → Prop) : Prop :=
  ∀ ds, match (x.run env).run ds with
    | .ok (a, ds') => (∃ ext, ds' = ds ++ ext) ∧ P a
    | .error p => OkKind p

theorem PurE.of_pur {α} {P : α → Prop} {x : M α} (h : Pur env x P) : PurE env x P := by
  intro ds
  have := h ds
  revert this
  cases (x.run env).run ds with
  | error p => exact fun hh => hh
  | ok r => exact fun hh => ⟨⟨[], by rw [hh.1]; simp⟩, hh.2⟩

theorem PurE.bind {α β} {P : α → Prop} {Q : β → Prop} {x : M α} {f : α → M β}
    (hx : PurE env x P) (hf : ∀ a, P a → PurE env (f a) Q) : PurE env (x >>= f) Q := by
  intro ds
  have h1 := hx ds
  show match ((x >>= f).run env).run ds with | .ok (a, ds') => (∃ ext, ds' = ds ++ ext) ∧ Q a | .error p => OkKind p
  simp only [ReaderT.run_bind, StateT.run_bind]
  cases hr : (x.run env).run ds with
  | error p => rw [hr] at h1; exact h1
  | ok r =>
    obtain ⟨a, ds1⟩ := r
    rw [hr] at h1
    obtain ⟨⟨e1, rfl⟩, ha⟩ := h1
    have h2 := hf a ha (ds ++ e1)
    show match (ReaderT.run (f a) env).run (ds ++ e1) with
      | .ok (b, ds') => (∃ ext, ds' = ds ++ ext) ∧ Q b | .error p => OkKind p
    revert h2
    cases (ReaderT.run (f a) env).run (ds ++ e1) with
    | error p => exact fun hh => hh
    | ok r2 =>
      rintro ⟨⟨e2, h3⟩, hq⟩
      exact ⟨⟨e1 ++ e2, by rw [h3, List.append_assoc]⟩, hq⟩

theorem PurE.pushDiag (d : Diag) : PurE env (pushDiag d) (fun _ => True) := fun ds => ⟨⟨[d], rfl⟩, trivial⟩

theorem PurE.pure {α} {P : α → Prop} (a : α) (h : P a) : PurE env (pure a : M α) P := PurE.of_pur (Pur.pure a h)
theorem PurE.bad {α} {P : α → Prop} (k : PanicKind) (m : String) (h1 : k ≠ .shape) (h2 : k ≠ .table) (h3 : k ≠ .lexical) :
    PurE env (bad k m : M α) P := PurE.of_pur (Pur.bad k m h1 h2 h3)
theorem purE_bind_pure {α β} {Q : β → Prop} {a : α} {f : α → M β} (h : PurE env (f a) Q) : PurE env (pure a >>= f) Q :=
  PurE.bind (PurE.pure (P := fun x => x = a) a rfl) (fun x hx => by subst hx; exact h)

theorem pur_fromParseError (e : ParseErr) : Pur env (fromParseError e) (fun d => d.kind = .error) := by
  unfold fromParseError
  cases e <;> exact Pur.bind (pur_mkRange _ _) (fun _ _ => Pur.pure _ rfl)

/-- an action from arguments typed in the initial diagnostics state to a result typed in the final one -/
def Tri {α} (env : Env) (x : M α) (ds : List Diag) (P : α → List Diag → Prop) : Prop :=
  match (x.run env).run ds with
  | .ok (a, ds') => (∃ ext, ds' = ds ++ ext) ∧ P a ds'
  | .error p => OkKind p

theorem hasError_append {ds ext : List Diag} (h : hasError ds) : hasError (ds ++ ext) := by
  obtain ⟨d, hd, hk⟩ := h
  exact ⟨d, List.mem_append_left _ hd, hk⟩

theorem Tri.of_pur {x : M Val} {t : VTy} {ds : List Diag} (h : Pur env x (HasTy (hasError ds) t)) :
    Tri env x ds (fun v ds' => HasTy (hasError ds') t v) := by
  unfold Tri
  have := h ds
  revert this
  cases (x.run env).run ds with
  | error p => exact fun hh => hh
  | ok r => rintro ⟨h1, h2⟩; exact ⟨⟨[], by rw [h1]; simp⟩, by rw [h1]; exact h2⟩

theorem Tri.of_purE {x : M Val} {t : VTy} {ds : List Diag} (h : PurE env x (HasTy (hasError ds) t)) :
    Tri env x ds (fun v ds' => HasTy (hasError ds') t v) := by
  unfold Tri
  have := h ds
  revert this
  cases (x.run env).run ds with
  | error p => exact fun hh => hh
  | ok r =>
    rintro ⟨⟨e, h1⟩, h2⟩
    exact ⟨⟨e, h1⟩, HasTy.mono (by rw [h1]; exact hasError_append) _ _ h2⟩

theorem recovery_run (msg : String) (s e : Nat) (err : ParseErr) (dropped : List Token) (ds : List Diag) :
    match PL.runM (recoveryAction msg [.triple s (.recovery err dropped) e]) env ds with
    | .ok (v, ds') => v = .none_ ∧ ∃ d, ds' = ds ++ [d] ∧ d.kind = .error
    | .error p => OkKind p := by
  have h1 := pur_fromParseError (env := env) err ds
  have hr : (ReaderT.run (fromParseError err) env).run ds = PL.runM (fromParseError err) env ds := rfl
  rw [hr] at h1
  unfold recoveryAction fromErrorRecovery
  simp only [nth, List.getElem?_cons_zero, argVal, PL.runM_bind, PL.runM_pure, PL.runM_pushDiag]
  revert h1
  cases PL.runM (fromParseError err) env ds with
  | error p => exact fun hh => hh
  | ok r =>
    obtain ⟨d, ds1⟩ := r
    rintro ⟨h2, h3⟩
    exact ⟨rfl, { d with message := msg ++ " - " ++ d.message }, by rw [h2], h3⟩

/-- the four error-recovery actions: `None`, and an Error has been reported -/
theorem tri_recovery (msg : String) (t : VTy) (ds : List Diag) (args : List ArgV)
    (h : ArgsTyped (hasError ds) [.triple .recovery] args) :
    Tri env (recoveryAction msg args) ds (fun v ds' => HasTy (hasError ds') (.optNS t) v ∧ hasError ds') := by
  obtain ⟨a, ha, hty⟩ := h.get (i := 0) rfl
  cases args with
  | nil => cases ha
  | cons a' rest =>
    cases rest with
    | cons b bs => exact h.2.elim
    | nil =>
      simp only [List.getElem?_cons_zero, Option.some.injEq] at ha
      subst ha
      cases a' with
      | locRef n => exact hty.elim
      | triple s v e =>
        obtain ⟨err, dropped, rfl⟩ := (hasTy_recovery _ v).mp hty
        have := recovery_run (env := env) msg s e err dropped ds
        unfold Tri
        unfold PL.runM at this
        revert this
        cases (ReaderT.run (recoveryAction msg [.triple s (.recovery err dropped) e]) env).run ds with
        | error p => exact fun hh => hh
        | ok r =>
          obtain ⟨v', ds'⟩ := r
          rintro ⟨rfl, d, h2, h3⟩
          have he : hasError ds' := ⟨d, by rw [h2]; exact List.mem_append_right _ (List.mem_singleton.mpr rfl), h3⟩
          refine ⟨⟨[d], h2⟩, ?_, he⟩
          simp only [HasTy]
          exact he

/-! ### every hand-written action -/

macro "tgood" : tactic => `(tactic| first
  | trivial
  | assumption
  | exact TyWF.array _ _ _ _ (by assumption)
  | exact TyWF.list1 _ _ _ _ (by assumption)
  | exact TyWF.map2 _ _ _ _ _ (by assumption) (by assumption)
  | exact TyWF.leaf _ _ _ _ (by decide)
  | solve_by_elim
  | (simp only [hasTy_tok, hasTy_loc, hasTy_str, hasTy_package, hasTy_import_, hasTy_ty, hasTy_dir, hasTy_ann, hasTy_arg,
       hasTy_method, hasTy_const, hasTy_field, hasTy_enumEl, hasTy_iel, hasTy_pel, hasTy_iface, hasTy_parc, hasTy_enm,
       hasTy_item, hasTy_aidl, hasTy_recovery, hasTy_opt, hasTy_optNS, hasTy_list, hasTy_pair] at *; (first | trivial | assumption | grind | (exfalso; simp_all) | (exfalso; grind))))

macro "tstep" : tactic => `(tactic| first
  | with_reducible refine Pur.bind (pur_locAt (by assumption) (by with_unfolding_all rfl)) (fun _ _ => ?_)
  | with_reducible refine Pur.bind (pur_tokAt (by assumption) (by with_unfolding_all rfl)) (fun _ _ => ?_)
  | with_reducible refine Pur.bind (pur_nth (by assumption) (by with_unfolding_all rfl)) (fun _ _ => ?_)
  | with_reducible refine Pur.bind (pur_mkRange _ _) (fun _ _ => ?_)
  | with_reducible refine Pur.bind (pur_getJavadoc _) (fun _ _ => ?_)
  | with_reducible refine Pur.bind (pur_asLoc (by with_unfolding_all tgood)) (fun _ _ => ?_)
  | with_reducible refine Pur.bind (pur_asTok (by with_unfolding_all tgood)) (fun _ _ => ?_)
  | with_reducible refine Pur.bind (pur_asStr (by with_unfolding_all tgood)) (fun _ _ => ?_)
  | with_reducible refine Pur.bind (pur_asTy (by with_unfolding_all tgood)) (fun _ _ => ?_)
  | with_reducible refine Pur.bind (pur_asList (by with_unfolding_all tgood)) (fun _ _ => ?_)
  | with_reducible refine Pur.bind (pur_asOpt (by with_unfolding_all tgood)) (fun _ _ => ?_)
  | with_reducible refine Pur.bind (pur_asOptNS (by with_unfolding_all tgood)) (fun _ _ => ?_)
  | with_reducible refine Pur.bind (pur_asAnns (by with_unfolding_all tgood)) (fun _ _ => ?_)
  | with_reducible refine Pur.bind (pur_optTokStr (by with_unfolding_all tgood)) (fun _ _ => ?_)
  | with_reducible refine Pur.bind (pur_joinToks (by with_unfolding_all tgood)) (fun _ _ => ?_)
  | with_reducible refine Pur.bind (pur_flattenOptsNS (by with_unfolding_all tgood)) (fun _ _ => ?_)
  | with_reducible refine pur_bind_pure ?_
  | with_reducible refine Pur.bind (Pur.map (pur_asStr (by with_unfolding_all tgood)) (fun _ _ => trivial) (Q := fun _ => True)) (fun _ _ => ?_)
  | with_reducible refine Pur.bind (Pur.mapM _ (P := fun _ => True) _ (fun _ _ => ?_)) (fun _ _ => ?_)
  | exact pur_simpleType _ _ _ _ (by decide)
  | with_reducible refine Pur.bind (pur_asPackageV (by with_unfolding_all tgood)) (fun _ _ => ?_)
  | with_reducible exact Pur.mono (pur_asPackageV (by with_unfolding_all tgood)) (fun _ _ => trivial)
  | with_reducible refine Pur.bind (pur_asImportV (by with_unfolding_all tgood)) (fun _ _ => ?_)
  | with_reducible exact Pur.mono (pur_asImportV (by with_unfolding_all tgood)) (fun _ _ => trivial)
  | with_reducible refine Pur.bind (pur_asItemV (by with_unfolding_all tgood)) (fun _ _ => ?_)
  | with_reducible exact Pur.mono (pur_asItemV (by with_unfolding_all tgood)) (fun _ _ => trivial)
  | with_reducible refine Pur.bind (pur_asIfaceV (by with_unfolding_all tgood)) (fun _ _ => ?_)
  | with_reducible exact Pur.mono (pur_asIfaceV (by with_unfolding_all tgood)) (fun _ _ => trivial)
  | with_reducible refine Pur.bind (pur_asParcV (by with_unfolding_all tgood)) (fun _ _ => ?_)
  | with_reducible exact Pur.mono (pur_asParcV (by with_unfolding_all tgood)) (fun _ _ => trivial)
  | with_reducible refine Pur.bind (pur_asEnmV (by with_unfolding_all tgood)) (fun _ _ => ?_)
  | with_reducible exact Pur.mono (pur_asEnmV (by with_unfolding_all tgood)) (fun _ _ => trivial)
  | with_reducible refine Pur.bind (pur_asMethodV (by with_unfolding_all tgood)) (fun _ _ => ?_)
  | with_reducible exact Pur.mono (pur_asMethodV (by with_unfolding_all tgood)) (fun _ _ => trivial)
  | with_reducible refine Pur.bind (pur_asConstV (by with_unfolding_all tgood)) (fun _ _ => ?_)
  | with_reducible exact Pur.mono (pur_asConstV (by with_unfolding_all tgood)) (fun _ _ => trivial)
  | with_reducible refine Pur.bind (pur_asFieldV (by with_unfolding_all tgood)) (fun _ _ => ?_)
  | with_reducible exact Pur.mono (pur_asFieldV (by with_unfolding_all tgood)) (fun _ _ => trivial)
  | with_reducible refine Pur.bind (pur_asEnumElV (by with_unfolding_all tgood)) (fun _ _ => ?_)
  | with_reducible exact Pur.mono (pur_asEnumElV (by with_unfolding_all tgood)) (fun _ _ => trivial)
  | with_reducible refine Pur.bind (pur_asDirV (by with_unfolding_all tgood)) (fun _ _ => ?_)
  | with_reducible exact Pur.mono (pur_asDirV (by with_unfolding_all tgood)) (fun _ _ => trivial)
  | with_reducible refine Pur.bind (pur_asStrPairV (by with_unfolding_all tgood)) (fun _ _ => ?_)
  | with_reducible exact Pur.mono (pur_asStrPairV (by with_unfolding_all tgood)) (fun _ _ => trivial)
  | with_reducible refine Pur.bind (pur_asLocTokV (by with_unfolding_all tgood)) (fun _ _ => ?_)
  | with_reducible exact Pur.mono (pur_asLocTokV (by with_unfolding_all tgood)) (fun _ _ => trivial)
  | with_reducible refine Pur.bind (pur_asAnnParamV (by with_unfolding_all tgood)) (fun _ _ => ?_)
  | with_reducible exact Pur.mono (pur_asAnnParamV (by with_unfolding_all tgood)) (fun _ _ => trivial)
  | with_reducible refine Pur.bind (pur_asArgV (by with_unfolding_all tgood)) (fun _ _ => ?_)
  | with_reducible exact Pur.mono (pur_asArgV (by with_unfolding_all tgood)) (fun _ _ => trivial)
  | with_reducible refine Pur.bind (pur_asIelV (by with_unfolding_all tgood)) (fun _ _ => ?_)
  | with_reducible exact Pur.mono (pur_asIelV (by with_unfolding_all tgood)) (fun _ _ => trivial)
  | with_reducible refine Pur.bind (pur_asPelV (by with_unfolding_all tgood)) (fun _ _ => ?_)
  | with_reducible exact Pur.mono (pur_asPelV (by with_unfolding_all tgood)) (fun _ _ => trivial)
  | with_reducible refine Pur.pure _ ?_
  | (with_reducible refine Pur.bad _ _ ?_ ?_ ?_) <;> decide)

macro "tauto'" : tactic => `(tactic| (repeat (any_goals (first | tstep | split))) <;> (try tgood))



macro "tstepE" : tactic => `(tactic| first
  | with_reducible refine PurE.bind (PurE.of_pur (pur_locAt (by assumption) (by with_unfolding_all rfl))) (fun _ _ => ?_)
  | with_reducible refine PurE.bind (PurE.of_pur (pur_tokAt (by assumption) (by with_unfolding_all rfl))) (fun _ _ => ?_)
  | with_reducible refine PurE.bind (PurE.of_pur (pur_nth (by assumption) (by with_unfolding_all rfl))) (fun _ _ => ?_)
  | with_reducible refine PurE.bind (PurE.of_pur (pur_mkRange _ _)) (fun _ _ => ?_)
  | with_reducible refine PurE.bind (PurE.of_pur (pur_getJavadoc _)) (fun _ _ => ?_)
  | with_reducible refine PurE.bind (PurE.of_pur (pur_asTy (by with_unfolding_all tgood))) (fun _ _ => ?_)
  | with_reducible refine PurE.bind (PurE.of_pur (pur_asList (by with_unfolding_all tgood))) (fun _ _ => ?_)
  | with_reducible refine PurE.bind (PurE.of_pur (pur_asOpt (by with_unfolding_all tgood))) (fun _ _ => ?_)
  | with_reducible refine PurE.bind (PurE.of_pur (pur_asAnns (by with_unfolding_all tgood))) (fun _ _ => ?_)
  | with_reducible refine PurE.bind (PurE.of_pur (pur_asPackageV (by with_unfolding_all tgood))) (fun _ _ => ?_)
  | with_reducible refine PurE.bind (PurE.of_pur (pur_asImportV (by with_unfolding_all tgood))) (fun _ _ => ?_)
  | with_reducible refine PurE.bind (PurE.of_pur (pur_asItemV (by with_unfolding_all tgood))) (fun _ _ => ?_)
  | with_reducible refine PurE.bind (PurE.of_pur (pur_asIfaceV (by with_unfolding_all tgood))) (fun _ _ => ?_)
  | with_reducible refine PurE.bind (PurE.of_pur (pur_asParcV (by with_unfolding_all tgood))) (fun _ _ => ?_)
  | with_reducible refine PurE.bind (PurE.of_pur (pur_asEnmV (by with_unfolding_all tgood))) (fun _ _ => ?_)
  | with_reducible refine PurE.bind (PurE.of_pur (pur_asMethodV (by with_unfolding_all tgood))) (fun _ _ => ?_)
  | with_reducible refine PurE.bind (PurE.of_pur (pur_asConstV (by with_unfolding_all tgood))) (fun _ _ => ?_)
  | with_reducible refine PurE.bind (PurE.of_pur (pur_asFieldV (by with_unfolding_all tgood))) (fun _ _ => ?_)
  | with_reducible refine PurE.bind (PurE.of_pur (pur_asEnumElV (by with_unfolding_all tgood))) (fun _ _ => ?_)
  | with_reducible refine PurE.bind (PurE.of_pur (pur_asDirV (by with_unfolding_all tgood))) (fun _ _ => ?_)
  | with_reducible refine PurE.bind (PurE.of_pur (pur_asStrPairV (by with_unfolding_all tgood))) (fun _ _ => ?_)
  | with_reducible refine PurE.bind (PurE.of_pur (pur_asLocTokV (by with_unfolding_all tgood))) (fun _ _ => ?_)
  | with_reducible refine PurE.bind (PurE.of_pur (pur_asAnnParamV (by with_unfolding_all tgood))) (fun _ _ => ?_)
  | with_reducible refine PurE.bind (PurE.of_pur (pur_asArgV (by with_unfolding_all tgood))) (fun _ _ => ?_)
  | with_reducible refine PurE.bind (PurE.of_pur (pur_asIelV (by with_unfolding_all tgood))) (fun _ _ => ?_)
  | with_reducible refine PurE.bind (PurE.of_pur (pur_asPelV (by with_unfolding_all tgood))) (fun _ _ => ?_)
  | with_reducible refine PurE.bind (PurE.pushDiag _) (fun _ _ => ?_)
  | with_reducible refine purE_bind_pure ?_
  | with_reducible refine PurE.bind (PurE.of_pur (Pur.mapM _ (P := fun _ => True) _ (fun _ _ => ?_))) (fun _ _ => ?_)
  | with_reducible refine PurE.pure _ ?_
  | (with_reducible refine PurE.bad _ _ ?_ ?_ ?_) <;> decide
  | with_reducible refine Pur.pure _ ?_
  | (with_reducible refine Pur.bad _ _ ?_ ?_ ?_) <;> decide)

macro "tautoE" : tactic => `(tactic| (repeat (any_goals (first | tstepE | split))) <;> (try tgood))

set_option maxHeartbeats 4000000 in
set_option maxRecDepth 10000 in
theorem tact_16 (env : Env) (E : Prop) (args : List ArgV)
    (h : ArgsTyped E [.triple .package, .triple (.list .import_), .triple (.list .import_), .triple (.optNS .item)] args) :
    Pur env (userAction 16 args) (HasTy E (.optNS .aidl)) := by
  unfold userAction
  simp only []
  refine Pur.bind (pur_nth h rfl) (fun v0 h0 => ?_)
  refine Pur.bind (pur_asPackageV h0) (fun p _ => ?_)
  refine Pur.bind (pur_nth h rfl) (fun v1 h1 => ?_)
  refine Pur.bind (pur_asList h1) (fun l1 hl1 => ?_)
  refine Pur.bind (Pur.mapM (P := fun _ => True) _ l1 (fun a ha => pur_asImportV (hl1 a ha))) (fun imps _ => ?_)
  refine Pur.bind (pur_nth h rfl) (fun v2 h2 => ?_)
  refine Pur.bind (pur_asList h2) (fun l2 hl2 => ?_)
  refine Pur.bind (Pur.mapM (P := fun _ => True) _ l2 (fun a ha => pur_asImportV (hl2 a ha))) (fun decls _ => ?_)
  refine Pur.bind (pur_nth h rfl) (fun v3 h3 => ?_)
  refine Pur.bind (pur_asOptNS h3) (fun o ho => ?_)
  cases o with
  | none => exact Pur.pure _ (ho.1 rfl)
  | some w => exact Pur.bind (pur_asItemV (ho.2 w rfl)) (fun it hit => Pur.pure _ hit)

set_option maxHeartbeats 4000000 in
set_option maxRecDepth 10000 in
theorem tact_17 (env : Env) (E : Prop) (args : List ArgV)
    (h : ArgsTyped E [.triple .loc, .triple .tok, .triple .loc, .triple .str, .triple .loc, .triple .loc, .triple .tok] args) :
    Pur env (userAction 17 args) (HasTy E .package) := by
  unfold userAction
  simp only []
  tauto'

set_option maxHeartbeats 4000000 in
set_option maxRecDepth 10000 in
theorem tact_18 (env : Env) (E : Prop) (args : List ArgV)
    (h : ArgsTyped E [.triple .loc, .triple .tok, .triple .loc, .triple (.list .tok), .triple .tok, .triple .loc, .triple .loc, .triple .tok] args) :
    Pur env (userAction 18 args) (HasTy E .import_) := by
  unfold userAction
  simp only []
  tauto'

set_option maxHeartbeats 4000000 in
set_option maxRecDepth 10000 in
theorem tact_19 (env : Env) (E : Prop) (args : List ArgV)
    (h : ArgsTyped E [.triple (.list .tok), .triple .tok] args) :
    Pur env (userAction 19 args) (HasTy E .str) := by
  unfold userAction
  simp only []
  tauto'

set_option maxHeartbeats 4000000 in
set_option maxRecDepth 10000 in
theorem tact_20 (env : Env) (E : Prop) (args : List ArgV)
    (h : ArgsTyped E [.triple (.list .ann), .triple .loc, .triple .tok, .triple .loc, .triple (.pair .str .str), .triple .loc, .triple .tok, .triple .loc] args) :
    Pur env (userAction 20 args) (HasTy E .import_) := by
  unfold userAction
  simp only []
  tauto'
  all_goals (exfalso; rename_i hne hex; obtain ⟨x, y, rfl, ⟨a, rfl⟩, ⟨b, rfl⟩⟩ := hex; exact hne a b rfl)

set_option maxHeartbeats 4000000 in
set_option maxRecDepth 10000 in
theorem tact_21 (env : Env) (E : Prop) (args : List ArgV)
    (h : ArgsTyped E [.triple .iface] args) :
    Pur env (userAction 21 args) (HasTy E (.optNS .item)) := by
  unfold userAction
  simp only []
  tauto'

set_option maxHeartbeats 4000000 in
set_option maxRecDepth 10000 in
theorem tact_22 (env : Env) (E : Prop) (args : List ArgV)
    (h : ArgsTyped E [.triple .parc] args) :
    Pur env (userAction 22 args) (HasTy E (.optNS .item)) := by
  unfold userAction
  simp only []
  tauto'

set_option maxHeartbeats 4000000 in
set_option maxRecDepth 10000 in
theorem tact_23 (env : Env) (E : Prop) (args : List ArgV)
    (h : ArgsTyped E [.triple .enm] args) :
    Pur env (userAction 23 args) (HasTy E (.optNS .item)) := by
  unfold userAction
  simp only []
  tauto'

set_option maxHeartbeats 4000000 in
set_option maxRecDepth 10000 in
theorem tact_25 (env : Env) (E : Prop) (args : List ArgV)
    (h : ArgsTyped E [.triple .loc, .triple (.list .ann), .triple .loc, .triple (.opt .tok), .triple .tok, .triple .loc, .triple .tok, .triple .loc, .triple .tok, .triple (.list (.optNS .iel)), .triple .tok, .triple .loc] args) :
    Pur env (userAction 25 args) (HasTy E .iface) := by
  unfold userAction
  simp only []
  refine Pur.bind (pur_nth h rfl) (fun v hv => ?_)
  refine Pur.bind (pur_flattenOptsNS hv) (fun l hl => ?_)
  refine Pur.bind (Pur.mapM (P := fun e => ∀ t ∈ e.topTypes, TyWF t) _ l (fun a ha => pur_asIelV (hl a ha))) (fun els hels => ?_)
  tauto'

set_option maxHeartbeats 4000000 in
set_option maxRecDepth 10000 in
theorem tact_26 (env : Env) (E : Prop) (args : List ArgV)
    (h : ArgsTyped E [.triple .method] args) :
    Pur env (userAction 26 args) (HasTy E (.optNS .iel)) := by
  unfold userAction
  simp only []
  refine Pur.bind (pur_nth h rfl) (fun v hv => ?_)
  refine Pur.bind (pur_asMethodV hv) (fun m hm => ?_)
  refine Pur.pure _ ?_
  show ∀ t ∈ (InterfaceElement.method m).topTypes, TyWF t
  intro t ht
  simp only [InterfaceElement.topTypes, Method.topTypes, List.mem_cons, List.mem_map] at ht
  rcases ht with rfl | ⟨a, ha, rfl⟩
  · exact hm.1
  · exact hm.2 a ha

set_option maxHeartbeats 4000000 in
set_option maxRecDepth 10000 in
theorem tact_27 (env : Env) (E : Prop) (args : List ArgV)
    (h : ArgsTyped E [.triple .const] args) :
    Pur env (userAction 27 args) (HasTy E (.optNS .iel)) := by
  unfold userAction
  simp only []
  refine Pur.bind (pur_nth h rfl) (fun v hv => ?_)
  refine Pur.bind (pur_asConstV hv) (fun c hc => ?_)
  refine Pur.pure _ ?_
  show ∀ t ∈ (InterfaceElement.const c).topTypes, TyWF t
  intro t ht
  simp only [InterfaceElement.topTypes, List.mem_cons, List.not_mem_nil, or_false] at ht
  subst ht
  exact hc

set_option maxHeartbeats 4000000 in
set_option maxRecDepth 10000 in
theorem tact_29 (env : Env) (E : Prop) (args : List ArgV)
    (h : ArgsTyped E [.triple .loc, .triple (.list .ann), .triple .loc, .triple .tok, .triple .loc, .triple .tok, .triple .loc, .triple .tok, .triple (.list (.optNS .pel)), .triple .tok, .triple .loc] args) :
    Pur env (userAction 29 args) (HasTy E .parc) := by
  unfold userAction
  simp only []
  refine Pur.bind (pur_nth h rfl) (fun v hv => ?_)
  refine Pur.bind (pur_flattenOptsNS hv) (fun l hl => ?_)
  refine Pur.bind (Pur.mapM (P := fun e => ∀ t ∈ e.topTypes, TyWF t) _ l (fun a ha => pur_asPelV (hl a ha))) (fun els hels => ?_)
  tauto'

set_option maxHeartbeats 4000000 in
set_option maxRecDepth 10000 in
theorem tact_30 (env : Env) (E : Prop) (args : List ArgV)
    (h : ArgsTyped E [.triple .field] args) :
    Pur env (userAction 30 args) (HasTy E (.optNS .pel)) := by
  unfold userAction
  simp only []
  refine Pur.bind (pur_nth h rfl) (fun v hv => ?_)
  refine Pur.bind (pur_asFieldV hv) (fun f hf => ?_)
  refine Pur.pure _ ?_
  show ∀ t ∈ (ParcelableElement.field f).topTypes, TyWF t
  intro t ht
  simp only [ParcelableElement.topTypes, List.mem_cons, List.not_mem_nil, or_false] at ht
  subst ht
  exact hf

set_option maxHeartbeats 4000000 in
set_option maxRecDepth 10000 in
theorem tact_31 (env : Env) (E : Prop) (args : List ArgV)
    (h : ArgsTyped E [.triple .const] args) :
    Pur env (userAction 31 args) (HasTy E (.optNS .pel)) := by
  unfold userAction
  simp only []
  refine Pur.bind (pur_nth h rfl) (fun v hv => ?_)
  refine Pur.bind (pur_asConstV hv) (fun c hc => ?_)
  refine Pur.pure _ ?_
  show ∀ t ∈ (ParcelableElement.const c).topTypes, TyWF t
  intro t ht
  simp only [ParcelableElement.topTypes, List.mem_cons, List.not_mem_nil, or_false] at ht
  subst ht
  exact hc

set_option maxHeartbeats 4000000 in
set_option maxRecDepth 10000 in
theorem tact_33 (env : Env) (E : Prop) (args : List ArgV)
    (h : ArgsTyped E [.triple .loc, .triple (.list .ann), .triple .loc, .triple .tok, .triple .loc, .triple .tok, .triple .loc, .triple .tok, .triple (.list (.optNS .enumEl)), .triple .tok, .triple .loc] args) :
    Pur env (userAction 33 args) (HasTy E .enm) := by
  unfold userAction
  simp only []
  tauto'

set_option maxHeartbeats 4000000 in
set_option maxRecDepth 10000 in
theorem tact_34 (env : Env) (E : Prop) (args : List ArgV)
    (h : ArgsTyped E [.triple .enumEl] args) :
    Pur env (userAction 34 args) (HasTy E (.optNS .enumEl)) := by
  unfold userAction
  simp only []
  tauto'

set_option maxHeartbeats 4000000 in
set_option maxRecDepth 10000 in
theorem tact_37 (env : Env) (E : Prop) (args : List ArgV)
    (h : ArgsTyped E [.triple .loc, .triple .dir, .triple (.list .ann), .triple .ty, .triple .loc, .triple (.opt .tok), .triple .loc] args) :
    Pur env (userAction 37 args) (HasTy E .arg) := by
  unfold userAction
  simp only []
  tauto'

/-- `Direction`: a DIRECTION token is `in`, `out` or `inout`, so the `unreachable!()` is not reached -/
theorem tact_38 (env : Env) (E : Prop) (args : List ArgV)
    (h : ArgsTyped E [.triple .loc, .triple (.opt .dtok), .triple .loc] args) :
    Pur env (userAction 38 args) (HasTy E .dir) := by
  unfold userAction
  simp only []
  refine Pur.bind (pur_locAt h rfl) (fun p1 _ => ?_)
  refine Pur.bind (pur_locAt h rfl) (fun p2 _ => ?_)
  refine Pur.bind (pur_nth h rfl) (fun v hv => ?_)
  refine Pur.bind (pur_optTokStr_d hv) (fun o ho => ?_)
  rcases ho with rfl | rfl | rfl | rfl
  · exact Pur.pure _ trivial
  · exact Pur.bind (pur_mkRange _ _) (fun _ _ => Pur.pure _ trivial)
  · exact Pur.bind (pur_mkRange _ _) (fun _ _ => Pur.pure _ trivial)
  · exact Pur.bind (pur_mkRange _ _) (fun _ _ => Pur.pure _ trivial)

set_option maxHeartbeats 4000000 in
set_option maxRecDepth 10000 in
theorem tact_39 (env : Env) (E : Prop) (args : List ArgV)
    (h : ArgsTyped E [.triple .loc, .triple (.list .ann), .triple .loc, .triple .tok, .triple .ty, .triple .loc, .triple .tok, .triple .loc, .triple .tok, .triple .str, .triple .loc, .triple .tok] args) :
    Pur env (userAction 39 args) (HasTy E .const) := by
  unfold userAction
  simp only []
  tauto'

set_option maxHeartbeats 4000000 in
set_option maxRecDepth 10000 in
theorem tact_40 (env : Env) (E : Prop) (args : List ArgV)
    (h : ArgsTyped E [.triple .loc, .triple (.list .ann), .triple .loc, .triple .ty, .triple .loc, .triple .tok, .triple .loc, .triple (.opt .str), .triple .loc, .triple .tok] args) :
    Pur env (userAction 40 args) (HasTy E .field) := by
  unfold userAction
  simp only []
  tauto'

set_option maxHeartbeats 4000000 in
set_option maxRecDepth 10000 in
theorem tact_41 (env : Env) (E : Prop) (args : List ArgV)
    (h : ArgsTyped E [.triple .loc, .triple (.list .ann), .triple .loc, .triple .loc, .triple .tok, .triple .loc, .triple (.opt .tok), .triple .loc] args) :
    Pur env (userAction 41 args) (HasTy E .enumEl) := by
  unfold userAction
  simp only []
  tauto'

set_option maxHeartbeats 4000000 in
set_option maxRecDepth 10000 in
theorem tact_50 (env : Env) (E : Prop) (args : List ArgV)
    (h : ArgsTyped E [.triple .loc, .triple .tok, .triple .loc] args) :
    Pur env (userAction 50 args) (HasTy E .ty) := by
  unfold userAction
  simp only []
  tauto'

set_option maxHeartbeats 4000000 in
set_option maxRecDepth 10000 in
theorem tact_51 (env : Env) (E : Prop) (args : List ArgV)
    (h : ArgsTyped E [.triple .loc, .triple .tok, .triple .loc] args) :
    Pur env (userAction 51 args) (HasTy E .ty) := by
  unfold userAction
  simp only []
  tauto'

set_option maxHeartbeats 4000000 in
set_option maxRecDepth 10000 in
theorem tact_52 (env : Env) (E : Prop) (args : List ArgV)
    (h : ArgsTyped E [.triple .loc, .triple .tok, .triple .loc] args) :
    Pur env (userAction 52 args) (HasTy E .ty) := by
  unfold userAction
  simp only []
  tauto'

set_option maxHeartbeats 4000000 in
set_option maxRecDepth 10000 in
theorem tact_53 (env : Env) (E : Prop) (args : List ArgV)
    (h : ArgsTyped E [.triple .loc, .triple .tok, .triple .loc] args) :
    Pur env (userAction 53 args) (HasTy E .ty) := by
  unfold userAction
  simp only []
  tauto'

set_option maxHeartbeats 4000000 in
set_option maxRecDepth 10000 in
theorem tact_54 (env : Env) (E : Prop) (args : List ArgV)
    (h : ArgsTyped E [.triple .loc, .triple .loc, .triple .ty, .triple .loc, .triple .tok, .triple .tok, .triple .loc] args) :
    Pur env (userAction 54 args) (HasTy E .ty) := by
  unfold userAction
  simp only []
  tauto'

set_option maxHeartbeats 4000000 in
set_option maxRecDepth 10000 in
theorem tact_55 (env : Env) (E : Prop) (args : List ArgV)
    (h : ArgsTyped E [.triple .loc, .triple .loc, .triple .tok, .triple .loc, .triple .tok, .triple .ty, .triple .tok, .triple .loc] args) :
    Pur env (userAction 55 args) (HasTy E .ty) := by
  unfold userAction
  simp only []
  tauto'

set_option maxHeartbeats 4000000 in
set_option maxRecDepth 10000 in
theorem tact_56 (env : Env) (E : Prop) (args : List ArgV)
    (h : ArgsTyped E [.triple .loc, .triple .tok, .triple .loc] args) :
    Pur env (userAction 56 args) (HasTy E .ty) := by
  unfold userAction
  simp only []
  tauto'

set_option maxHeartbeats 4000000 in
set_option maxRecDepth 10000 in
theorem tact_57 (env : Env) (E : Prop) (args : List ArgV)
    (h : ArgsTyped E [.triple .loc, .triple .loc, .triple .tok, .triple .loc, .triple .tok, .triple .ty, .triple .tok, .triple .ty, .triple .tok, .triple .loc] args) :
    Pur env (userAction 57 args) (HasTy E .ty) := by
  unfold userAction
  simp only []
  tauto'

set_option maxHeartbeats 4000000 in
set_option maxRecDepth 10000 in
theorem tact_58 (env : Env) (E : Prop) (args : List ArgV)
    (h : ArgsTyped E [.triple .loc, .triple .tok, .triple .loc] args) :
    Pur env (userAction 58 args) (HasTy E .ty) := by
  unfold userAction
  simp only []
  tauto'

set_option maxHeartbeats 4000000 in
set_option maxRecDepth 10000 in
theorem tact_59 (env : Env) (E : Prop) (args : List ArgV)
    (h : ArgsTyped E [.triple .loc, .triple .str, .triple .loc] args) :
    Pur env (userAction 59 args) (HasTy E .ty) := by
  unfold userAction
  simp only []
  tauto'

set_option maxHeartbeats 4000000 in
set_option maxRecDepth 10000 in
theorem tact_60 (env : Env) (E : Prop) (args : List ArgV)
    (h : ArgsTyped E [.triple (.list (.optNS .ann))] args) :
    Pur env (userAction 60 args) (HasTy E (.list .ann)) := by
  unfold userAction
  simp only []
  tauto'

set_option maxHeartbeats 4000000 in
set_option maxRecDepth 10000 in
theorem tact_62 (env : Env) (E : Prop) (args : List ArgV)
    (h : ArgsTyped E [.triple .tok, .triple (.opt .tok)] args) :
    Pur env (userAction 62 args) (HasTy E (.pair .str (.opt .str))) := by
  unfold userAction
  simp only []
  tauto'

set_option maxHeartbeats 4000000 in
set_option maxRecDepth 10000 in
theorem tact_63 (env : Env) (E : Prop) (args : List ArgV)
    (h : ArgsTyped E [.triple .tok] args) :
    Pur env (userAction 63 args) (HasTy E .str) := by
  unfold userAction
  simp only []
  tauto'

set_option maxHeartbeats 4000000 in
set_option maxRecDepth 10000 in
theorem tact_64 (env : Env) (E : Prop) (args : List ArgV)
    (h : ArgsTyped E [.triple .tok] args) :
    Pur env (userAction 64 args) (HasTy E .str) := by
  unfold userAction
  simp only []
  tauto'

set_option maxHeartbeats 4000000 in
set_option maxRecDepth 10000 in
theorem tact_65 (env : Env) (E : Prop) (args : List ArgV)
    (h : ArgsTyped E [.triple .tok] args) :
    Pur env (userAction 65 args) (HasTy E .str) := by
  unfold userAction
  simp only []
  tauto'

set_option maxHeartbeats 4000000 in
set_option maxRecDepth 10000 in
theorem tact_66 (env : Env) (E : Prop) (args : List ArgV)
    (h : ArgsTyped E [.triple .tok] args) :
    Pur env (userAction 66 args) (HasTy E .str) := by
  unfold userAction
  simp only []
  tauto'

set_option maxHeartbeats 4000000 in
set_option maxRecDepth 10000 in
theorem tact_67 (env : Env) (E : Prop) (args : List ArgV)
    (h : ArgsTyped E [.triple .tok, .triple .tok] args) :
    Pur env (userAction 67 args) (HasTy E .str) := by
  unfold userAction
  simp only []
  tauto'

set_option maxHeartbeats 4000000 in
set_option maxRecDepth 10000 in
theorem tact_68 (env : Env) (E : Prop) (args : List ArgV)
    (h : ArgsTyped E [.triple .tok, .triple (.list .str), .triple (.list .str), .triple (.opt .tok), .triple .tok] args) :
    Pur env (userAction 68 args) (HasTy E .str) := by
  unfold userAction
  simp only []
  tauto'

set_option maxHeartbeats 4000000 in
set_option maxRecDepth 10000 in
theorem tact_69 (env : Env) (E : Prop) (args : List ArgV)
    (h : ArgsTyped E [.triple .tok, .triple .tok, .triple .tok] args) :
    Pur env (userAction 69 args) (HasTy E .str) := by
  unfold userAction
  simp only []
  tauto'

set_option maxHeartbeats 4000000 in
set_option maxRecDepth 10000 in
theorem tact_100 (env : Env) (E : Prop) (args : List ArgV)
    (h : ArgsTyped E [.triple (.list .tok), .triple .tok] args) :
    Pur env (userAction 100 args) (HasTy E (.pair .str .str)) := by
  unfold userAction
  simp only []
  tauto'

set_option maxHeartbeats 4000000 in
set_option maxRecDepth 10000 in
theorem tact_61 (env : Env) (E : Prop) (args : List ArgV)
    (h : ArgsTyped E [.triple .tok, .triple (.opt (.list (.pair .str (.opt .str))))] args) :
    Pur env (userAction 61 args) (HasTy E (.optNS .ann)) := by
  unfold userAction
  simp only []
  refine Pur.bind (pur_nth h (i := 1) rfl) (fun v hv => ?_)
  refine Pur.bind (pur_asOpt hv) (fun o ho => ?_)
  cases o with
  | none =>
    dsimp only
    refine pur_bind_pure ?_
    refine Pur.bind (pur_tokAt h (i := 0) rfl) (fun n _ => ?_)
    exact Pur.pure _ (by simp [HasTy])
  | some l =>
    dsimp only
    have hl := ho l rfl
    refine Pur.bind (pur_asList hl) (fun l' hl' => ?_)
    refine Pur.bind (Pur.mapM (P := fun _ => True) _ l' ?_) (fun ps _ => ?_)
    · intro a ha
      obtain ⟨x, y, rfl, hx, hy⟩ := (hasTy_pair _ _ _ a).mp (hl' a ha)
      obtain ⟨k, rfl⟩ := (hasTy_str _ x).mp hx
      rcases (hasTy_opt _ _ y).mp hy with rfl | ⟨w, rfl, hw⟩
      · exact Pur.pure _ trivial
      · obtain ⟨s, rfl⟩ := (hasTy_str _ w).mp hw
        exact Pur.pure _ trivial
    · refine Pur.bind (pur_tokAt h (i := 0) rfl) (fun n _ => ?_)
      exact Pur.pure _ (by simp [HasTy])

set_option maxHeartbeats 4000000 in
set_option maxRecDepth 10000 in
theorem tact_36 (env : Env) (E : Prop) (args : List ArgV)
    (h : ArgsTyped E [.triple .loc, .triple (.list .ann), .triple .loc, .triple .loc, .triple (.opt .tok), .triple .loc, .triple .ty, .triple .loc, .triple .tok, .triple .loc, .triple .tok, .triple (.list .arg), .triple .tok, .triple .loc, .triple (.opt (.pair .loc .tok)), .triple .loc, .triple .loc, .triple .tok] args) :
    PurE env (userAction 36 args) (HasTy E .method) := by
  unfold userAction
  simp only []
  refine PurE.bind (PurE.of_pur (pur_nth h rfl)) (fun v hv => ?_)
  refine PurE.bind (PurE.of_pur (pur_asList hv)) (fun l hl => ?_)
  refine PurE.bind (PurE.of_pur (Pur.mapM (P := fun a => TyWF a.argType) _ l (fun a ha => pur_asArgV (hl a ha)))) (fun margs hmargs => ?_)
  tautoE
  all_goals (rename_i hneg _ hex; obtain ⟨_, _, rfl, ⟨_, rfl⟩, ⟨_, rfl⟩⟩ := hex; exact hneg _ _ rfl)

end Aidl.Props.Typed
