import AidlVerif.Props.LrSafe
import AidlVerif.Props.TypeCheck
import AidlVerif.Props.LrInv
import AidlVerif.Props.LexerLang

/-!
# The typed invariant of a run: no `shape` / `table` stop, and failure is never silent

`Inv2`: the stack is a certified chain and every symbol's value has the type of its symbol, relative
to "an Error has been reported" for the current diagnostics. Preserved by every step of the driver.
At the end: an accepted value is an `Option<Aidl>` that is `None` only if an Error has been reported.
-/

namespace Aidl.Props.LrTyped
open Aidl Aidl.Lr Aidl.Actions Aidl.Lexer Aidl.Typing
open Aidl.Props.LrSafe Aidl.Props.Typed

variable (T : Tables) (C : Cert) (TT : TyTables) (env : Env)

def symTy (id : Nat) : VTy := (TT.symTys[id]?).getD .tok

/-- the argument types a production hands to its action -/
def prodParams (p : Production) : List ATy :=
  if p.rhsIds.length = 0 then [.locRef, .locRef] else p.rhsIds.map fun id => .triple (symTy TT id)

def prodOk (p : Production) : Bool :=
  match TT.sigs[p.action]? with
  | some sg => sg.params == prodParams TT p
      && (if p.accept then sg.ret == .optNS .aidl else sg.ret == symTy TT (T.ncols + p.nt))
      && decide (TT.rankOf p.action < 16)
      && (!p.rhsIds.contains (T.ncols - 1) || TT.reportsOf p.action)    -- a production over `error` reports an Error
  | none => false

/-- the texts of a DIRECTION token -/
def dirWords : List (List Char) := [['i', 'n'], ['o', 'u', 't'], ['i', 'n', 'o', 'u', 't']]

/-- a lexer entry whose column has the refined type `dtok` only matches `in`, `out`, `inout` -/
def dirEntryOk (i : Nat) : Bool :=
  match LexerLang.lang T.lex[i]!.1 with
  | some L => L.all fun w => dirWords.contains w
  | none => false

/-- productions are well typed; terminals carry tokens (a `dtok` column: tokens whose text is a
    direction word, by the language of its lexer entries), `error` the recovery record -/
def tablesOk : Bool :=
  T.prods.toList.all (prodOk T TT)
    && T.tokToCol.all (fun e => symTy TT e.2 == .tok || (symTy TT e.2 == .dtok && dirEntryOk T e.1))
    && symTy TT (T.ncols - 1) == .recovery

structure TyFacts : Prop where
  actions : TT.actionsOk = true
  prods : ∀ (p : Nat) (prod : Production), T.prods[p]? = some prod → prodOk T TT prod = true
  cols : ∀ (i col : Nat), T.tokToCol.lookup i = some col →
    symTy TT col = .tok ∨ (symTy TT col = .dtok ∧ dirEntryOk T i = true)
  err : symTy TT (T.ncols - 1) = .recovery
  defs : TT.defs = T.actions

theorem lookup_mem'' {l : List (Nat × Nat)} {k v : Nat} (h : l.lookup k = some v) : (k, v) ∈ l := lookup_mem' h

theorem tyFacts (ha : TT.actionsOk = true) (ht : tablesOk T TT = true) (hd : TT.defs = T.actions) : TyFacts T TT := by
  unfold tablesOk at ht
  simp only [Bool.and_eq_true, beq_iff_eq] at ht
  obtain ⟨⟨h1, h2⟩, h3⟩ := ht
  refine ⟨ha, ?_, ?_, h3, hd⟩
  · intro p prod hp
    exact (List.all_eq_true.mp h1) prod (by
      have := Array.mem_of_getElem? hp
      exact Array.mem_toList_iff.mpr this)
  · intro i col hl
    have := (List.all_eq_true.mp h2) (i, col) (lookup_mem'' hl)
    simpa using this

/-- what the lexer guarantees about a token of column `col`: its value has the column's type -/
def TokTy (col : Nat) (la : Token) : Prop := HasTy False (symTy TT col) (.tok la.text)

def LaOk (la : Option Token) (col : Option Nat) : Prop := ∀ l c, la = some l → col = some c → TokTy TT c l

theorem dirWord_text {w : List Char} (h : dirWords.contains w = true) :
    String.ofList w = "in" ∨ String.ofList w = "out" ∨ String.ofList w = "inout" := by
  have : w ∈ dirWords := by simpa using h
  simp only [dirWords, List.mem_cons, List.mem_nil_iff, or_false] at this
  rcases this with rfl | rfl | rfl
  · exact Or.inl rfl
  · exact Or.inr (Or.inl rfl)
  · exact Or.inr (Or.inr rfl)

def TypedSt (s : St) : Prop := ∀ x ∈ s.syms, HasTy (hasError s.diags) (symTy TT x.id) x.val

/-- once error recovery has run, its `error` symbol is still on the stack or an Error has been reported -/
def RecOk (s : St) : Prop := s.recovered = true → (∃ x ∈ s.syms, x.id = T.ncols - 1) ∨ hasError s.diags

structure Inv2 (s : St) : Prop where
  chain : Chain C s.states s.syms
  typed : TypedSt TT s
  recok : RecOk T s

/-- how a run may end, given the state it ends in -/
def EndOk (s : St) : Outcome → Prop
  | .accept v => HasTy (hasError s.diags) (.optNS .aidl) v ∧ (s.recovered = true → hasError s.diags)
  | .actionPanic p => OkKind p
  | .panic _ => False
  | _ => True

theorem topState_of_chain' {s : St} (hc : Chain C s.states s.syms) : ∃ st, s.states = topState s :: st := by
  unfold topState
  cases hc' : s.states with
  | nil => have := hc.length; rw [hc'] at this; simp at this
  | cons t st => exact ⟨st, rfl⟩

/-! ### steps -/

theorem nextToken_keeps (s : St) :
    (nextToken T s).1.states = s.states ∧ (nextToken T s).1.syms = s.syms ∧ (nextToken T s).1.diags = s.diags
      ∧ (nextToken T s).1.recovered = s.recovered := by
  unfold nextToken
  split
  · exact ⟨rfl, rfl, rfl, rfl⟩
  · exact ⟨rfl, rfl, rfl, rfl⟩
  · split <;> exact ⟨rfl, rfl, rfl, rfl⟩

theorem inv2_of_keeps {s s' : St} (h : Inv2 T C TT s) (h1 : s'.states = s.states) (h2 : s'.syms = s.syms)
    (h3 : s'.diags = s.diags) (h4 : s'.recovered = s.recovered) : Inv2 T C TT s' :=
  ⟨by rw [h1, h2]; exact h.chain, by unfold TypedSt; rw [h2, h3]; exact h.typed,
   by unfold RecOk; rw [h2, h3, h4]; exact h.recok⟩

theorem nextToken_inv2 (F : TyFacts T TT) (s : St) (h : Inv2 T C TT s) :
    match nextToken T s with
    | (s', .found t col) => Inv2 T C TT s' ∧ TokTy TT col t
    | (s', .eof) => Inv2 T C TT s'
    | (s', .done o) => EndOk s' o := by
  have hk := nextToken_keeps T s
  have hi : Inv2 T C TT (nextToken T s).1 := inv2_of_keeps T C TT h hk.1 hk.2.1 hk.2.2.1 hk.2.2.2
  revert hi
  unfold nextToken
  split
  · exact fun hi => hi
  · exact fun _ => trivial
  · rename_i t rest heq
    dsimp only
    cases hc : T.tokToCol.lookup t.index with
    | some col =>
      refine fun hi => ⟨hi, ?_⟩
      unfold TokTy
      rcases F.cols _ _ hc with h1 | ⟨h1, h2⟩
      · rw [h1]; trivial
      · rw [h1]
        unfold dirEntryOk at h2
        cases hL : LexerLang.lang T.lex[t.index]!.1 with
        | none => rw [hL] at h2; cases h2
        | some L =>
          rw [hL] at h2
          obtain ⟨w, hw, htext⟩ := LexerLang.next_token_lang T.lex _ _ _ t rest heq L hL
          rw [htext]
          exact dirWord_text ((List.all_eq_true.mp h2) w hw)
    | none => exact fun _ => trivial

theorem argsTyped_map {E : Prop} : ∀ (syms : List Sym) (ids : List Nat), syms.map (·.id) = ids →
    (∀ x ∈ syms, HasTy E (symTy TT x.id) x.val) →
    ArgsTyped E (ids.map fun id => .triple (symTy TT id)) (syms.map fun x => .triple x.start x.val x.stop)
  | [], [], _, _ => trivial
  | x :: xs, [], h, _ => by simp at h
  | [], i :: is, h, _ => by simp at h
  | x :: xs, i :: is, h, hx => by
    simp only [List.map_cons, List.cons.injEq] at h
    refine ⟨?_, argsTyped_map xs is h.2 (fun y hy => hx y (List.mem_cons_of_mem _ hy))⟩
    show HasTy E (symTy TT i) x.val
    rw [← h.1]
    exact hx x (List.mem_cons_self ..)

theorem reduce_inv2 (F : CertFacts T C) (G : TyFacts T TT) (s : St) (p : Nat) (la : Option Nat)
    (h : Inv2 T C TT s) (hred : C.redOK T (topState s) p = true) :
    match reduce T env s p la with
    | (s', some o) => EndOk s' o
    | (s', none) => Inv2 T C TT s' := by
  obtain ⟨st, hst⟩ := topState_of_chain' C h.chain
  obtain ⟨prod, hp, hk, ⟨hids, hlen⟩, heq, hdrv, hchain⟩ := reduce_safe T C F env s (topState s) st p la hst h.chain hred
  have hpok := G.prods p prod hp
  unfold prodOk at hpok
  cases hsg : TT.sigs[prod.action]? with
  | none => simp [hsg] at hpok
  | some sg =>
    simp only [hsg, Bool.and_eq_true, beq_iff_eq, decide_eq_true_eq] at hpok
    obtain ⟨⟨⟨hparams, hret⟩, hrank⟩, hrep⟩ := hpok
    -- the arguments handed to the action are typed
    have hpop : ∀ x ∈ (s.syms.take prod.rhs.length).reverse, HasTy (hasError s.diags) (symTy TT x.id) x.val := by
      intro x hx
      exact h.typed x (List.mem_of_mem_take (List.mem_reverse.mp hx))
    have hargs : ∀ start stop, ArgsTyped (hasError s.diags) sg.params
        (reduceArgs (s.syms.take prod.rhs.length).reverse start stop) := by
      intro start stop
      rw [hparams]
      unfold prodParams reduceArgs
      have hl : ((s.syms.take prod.rhs.length).reverse).length = prod.rhsIds.length := by
        rw [← hids, List.length_map]
      by_cases hz : prod.rhsIds.length = 0
      · rw [if_pos hz, if_pos (by rw [hl]; exact hz)]
        exact ⟨trivial, trivial, trivial⟩
      · rw [if_neg hz, if_neg (by rw [hl]; exact hz)]
        exact argsTyped_map TT _ _ hids hpop
    -- an `error` symbol among the popped ones makes the action report an Error
    have hpoperr : (∃ x ∈ s.syms.take prod.rhs.length, x.id = T.ncols - 1) → TT.reportsOf prod.action = true := by
      rintro ⟨x, hx, hid⟩
      have hmem : T.ncols - 1 ∈ prod.rhsIds := by
        rw [← hids, ← hid]
        exact List.mem_map.mpr ⟨x, List.mem_reverse.mpr hx, rfl⟩
      simp only [Bool.or_eq_true, Bool.not_eq_true', List.contains_eq_mem, decide_eq_false_iff_not] at hrep
      rcases hrep with hrep | hrep
      · exact absurd hmem hrep
      · exact hrep
    have hact := evalAction_typed (env := env) TT G.actions 16 prod.action sg hsg hrank s.diags
    rw [G.defs] at hact
    have hsplit : s.syms = s.syms.take prod.rhs.length ++ s.syms.drop prod.rhs.length := (List.take_append_drop _ _).symm
    cases hres : reduce T env s p la with
    | mk s' oo =>
      have hdrv' := hdrv s'
      have hchain' := hchain s'
      rw [hres] at hdrv' hchain'
      rw [heq] at hres
      unfold reduceCore at hres
      dsimp only at hres
      have hact' := hact _ (hargs (reduceStart (s.syms.take prod.rhs.length).reverse (s.syms.drop prod.rhs.length) la)
        (reduceStop (s.syms.take prod.rhs.length).reverse
          (reduceStart (s.syms.take prod.rhs.length).reverse (s.syms.drop prod.rhs.length) la)))
      unfold Tri at hact'
      revert hact' hres
      cases (ReaderT.run (evalAction T.actions 16 prod.action _) env).run s.diags with
      | error e =>
        intro hres hact'
        dsimp only at hres
        cases hres
        exact hact'
      | ok r =>
        obtain ⟨v, diags⟩ := r
        intro hres
        rintro ⟨⟨ext, hext⟩, hv, hrv⟩
        dsimp only at hres
        have hmono : hasError s.diags → hasError diags := by rw [hext]; exact hasError_append
        unfold reducePush at hres
        dsimp only at hres
        by_cases hacc : prod.accept = true
        · rw [if_pos hacc] at hres
          cases hres
          rw [if_pos hacc] at hret
          have hret' : sg.ret = .optNS .aidl := by simpa using hret
          refine ⟨by rw [← hret']; exact hv, ?_⟩
          intro hrec
          show hasError diags
          rcases h.recok hrec with ⟨x, hx, hid⟩ | he
          · have hempty := accept_empties T C F s (topState s) st p prod hst h.chain hred hp hacc
            rw [hsplit, hempty, List.append_nil] at hx
            exact hrv (hpoperr ⟨x, hx, hid⟩)
          · exact hmono he
        · rw [if_neg hacc] at hres hret
          split at hres
          · cases hres; exact hdrv' _ rfl
          · cases hres
            have hret' : sg.ret = symTy TT (T.ncols + prod.nt) := by simpa using hret
            refine ⟨hchain' rfl, ?_, ?_⟩
            · intro x hx
              rcases List.mem_cons.mp hx with rfl | hx
              · show HasTy (hasError diags) (symTy TT (T.ncols + prod.nt)) v
                rw [← hret']; exact hv
              · exact HasTy.mono hmono _ _ (h.typed x (List.mem_of_mem_drop hx))
            · intro hrec
              rcases h.recok hrec with ⟨x, hx, hid⟩ | he
              · rw [hsplit] at hx
                rcases List.mem_append.mp hx with hx | hx
                · exact Or.inr (hrv (hpoperr ⟨x, hx, hid⟩))
                · exact Or.inl ⟨x, List.mem_cons_of_mem _ hx, hid⟩
              · exact Or.inr (hmono he)

/-! ### error recovery -/

theorem reduceOnError_inv2 (F : CertFacts T C) (G : TyFacts T TT) (la : Option Token) :
    ∀ (fuel : Nat) (s : St), Inv2 T C TT s →
      match reduceOnError T env la s fuel with
      | (s', some o) => EndOk s' o
      | (s', none) => Inv2 T C TT s' := by
  intro fuel
  induction fuel with
  | zero => intro s _; unfold reduceOnError; trivial
  | succ f ih =>
    intro s h
    unfold reduceOnError
    cases hr : asReduce (errorAction T (topState s)) with
    | none => exact h
    | some r =>
      dsimp only
      have hred := F.red (topState s) (T.ncols - 1) r hr
      have := reduce_inv2 T C TT env F G s r (la.map (·.start)) h hred
      revert this
      cases reduce T env s r (la.map (·.start)) with
      | mk s' oo =>
        cases oo with
        | some o => exact fun hh => hh
        | none => exact fun hh => ih s' hh

theorem findState_inv2 (G : TyFacts T TT) (error : ParseErr) (statesLen : Nat) :
    ∀ (fuel : Nat) (s : St) (la : Option Token) (col : Option Nat) (dropped : List Token),
      Inv2 T C TT s → s.states.length = statesLen → la.isSome = col.isSome → LaOk TT la col →
      match findState T error statesLen s la col dropped fuel with
      | (s', .inl (.done o)) => EndOk s' o
      | (_, .inl _) => False
      | (s', .inr (top, la', col', _)) =>
          Inv2 T C TT s' ∧ s'.states.length = statesLen ∧ top < statesLen
          ∧ (asShift (errorAction T ((s'.states.drop (statesLen - 1 - top)).headD 0))).isSome = true
          ∧ la'.isSome = col'.isSome ∧ LaOk TT la' col' ∧ (la = none → la' = none) := by
  intro fuel
  induction fuel with
  | zero => intro s la col dropped _ _ _ _; unfold findState; trivial
  | succ f ih =>
    intro s la col dropped h hlen hlc hcol
    unfold findState
    cases hc : errorCandidate T statesLen s col with
    | some top =>
      obtain ⟨h1, h2⟩ := LrInv.errorCandidate_spec T hc
      exact ⟨h, hlen, h1, h2, hlc, hcol, fun hh => hh⟩
    | none =>
      dsimp only
      cases la with
      | none => trivial
      | some l =>
        dsimp only
        have hn := nextToken_inv2 T C TT G s h
        have hk := nextToken_keeps T s
        revert hn hk
        cases nextToken T s with
        | mk s' r =>
          cases r with
          | found t c =>
            intro hn hk
            dsimp only
            have := ih s' (some t) (some c) (dropped ++ [l]) hn.1 (by rw [hk.1]; exact hlen) rfl
              (by intro l' c' hl' hc'; cases hl'; cases hc'; exact hn.2)
            revert this
            cases findState T error statesLen s' (some t) (some c) (dropped ++ [l]) f with
            | mk s'' r' =>
              cases r' with
              | inl nt => cases nt <;> exact fun hh => hh
              | inr x => intro hx; exact ⟨hx.1, hx.2.1, hx.2.2.1, hx.2.2.2.1, hx.2.2.2.2.1, hx.2.2.2.2.2.1, by intro hh; cases hh⟩
          | eof =>
            intro hn hk
            dsimp only
            have := ih s' none none (dropped ++ [l]) hn (by rw [hk.1]; exact hlen) rfl (by intro l' c' hl'; cases hl')
            revert this
            cases findState T error statesLen s' none none (dropped ++ [l]) f with
            | mk s'' r' =>
              cases r' with
              | inl nt => cases nt <;> exact fun hh => hh
              | inr x => intro hx; exact ⟨hx.1, hx.2.1, hx.2.2.1, hx.2.2.2.1, hx.2.2.2.2.1, hx.2.2.2.2.2.1, by intro hh; cases hh⟩
          | done o => intro hn _; exact hn

theorem recoverPush_inv2 (F : CertFacts T C) (G : TyFacts T TT) (error : ParseErr) (statesLen : Nat)
    (s : St) (top : Nat) (la : Option Token) (col : Option Nat) (dropped : List Token)
    (h : Inv2 T C TT s) (hlen : s.states.length = statesLen) (htop : top < statesLen)
    (hshift : (asShift (errorAction T ((s.states.drop (statesLen - 1 - top)).headD 0))).isSome = true)
    (hlc : la.isSome = col.isSome) (hcol : LaOk TT la col) :
    match recoverPush T error statesLen s top la col dropped with
    | (s', .found l c) => Inv2 T C TT s' ∧ TokTy TT c l ∧ la.isSome = true
    | (s', .eof) => Inv2 T C TT s' ∧ la = none
    | (s', .done o) => EndOk s' o := by
  have hsl := h.chain.length
  have hn : statesLen - 1 - top ≤ s.syms.length := by omega
  have hdrop := h.chain.drop (statesLen - 1 - top) hn
  have hsyms : (s.syms.reverse.take top).reverse = s.syms.drop (statesLen - 1 - top) := by
    rw [List.take_reverse, List.reverse_reverse]
    congr 1
    omega
  unfold recoverPush
  dsimp only
  cases hsh : asShift (errorAction T ((s.states.drop (statesLen - 1 - top)).headD 0)) with
  | none => rw [hsh] at hshift; cases hshift
  | some errState =>
    dsimp only
    have hne : ∃ q rest, s.states.drop (statesLen - 1 - top) = q :: rest := by
      cases hd : s.states.drop (statesLen - 1 - top) with
      | nil =>
        have := congrArg List.length hd
        simp only [List.length_drop, List.length_nil] at this
        omega
      | cons q rest => exact ⟨q, rest, rfl⟩
    obtain ⟨q, rest, hq⟩ := hne
    rw [hq] at hsh hdrop
    simp only [List.headD_cons] at hsh
    have hedge := F.shift q (T.ncols - 1) errState hsh
    have hinv : ∀ (s' : St) (x : Sym), s'.states = errState :: s.states.drop (statesLen - 1 - top) →
        s'.syms = x :: (s.syms.reverse.take top).reverse → s'.diags = s.diags →
        x.id = T.ncols - 1 → (∃ e d, x.val = .recovery e d) → Inv2 T C TT s' := by
      intro s' x h1 h2 h3 hid hval
      refine ⟨?_, ?_, ?_⟩
      case refine_3 => intro _; exact Or.inl ⟨x, by rw [h2]; exact List.mem_cons_self .., hid⟩
      · rw [h1, h2, hsyms, hq]
        exact Chain.step hdrop (by rw [hid]; exact hedge)
      · intro y hy
        rw [h2] at hy
        rw [h3]
        rcases List.mem_cons.mp hy with rfl | hy
        · rw [hid, G.err]
          obtain ⟨e, d, hv⟩ := hval
          rw [hv]; trivial
        · rw [hsyms] at hy
          exact h.typed y (List.mem_of_mem_drop hy)
    cases la with
    | some l =>
      cases col with
      | some c => exact ⟨hinv _ _ rfl rfl rfl rfl ⟨_, _, rfl⟩, hcol l c rfl rfl, rfl⟩
      | none => simp at hlc
    | none =>
      cases col with
      | some c => simp at hlc
      | none => exact ⟨hinv _ _ rfl rfl rfl rfl ⟨_, _, rfl⟩, rfl⟩

theorem errorRecovery_inv2 (F : CertFacts T C) (G : TyFacts T TT) (s : St) (la : Option Token) (col : Option Nat)
    (fuel : Nat) (h : Inv2 T C TT s) (hlc : la.isSome = col.isSome) (hcol : LaOk TT la col) :
    match errorRecovery T env s la col fuel with
    | (s', .found l c) => Inv2 T C TT s' ∧ TokTy TT c l ∧ la.isSome = true
    | (s', .eof) => Inv2 T C TT s'
    | (s', .done o) => EndOk s' o := by
  unfold errorRecovery
  dsimp only
  have h1 := reduceOnError_inv2 T C TT env F G la fuel s h
  revert h1
  cases reduceOnError T env la s fuel with
  | mk s1 oo =>
    cases oo with
    | some o => exact fun hh => hh
    | none =>
      intro h1
      dsimp only
      have h2 := findState_inv2 T C TT G (unrecognized T s la) s1.states.length fuel s1 la col [] h1 rfl hlc hcol
      revert h2
      cases findState T (unrecognized T s la) s1.states.length s1 la col [] fuel with
      | mk s2 r =>
        cases r with
        | inl nt =>
          cases nt with
          | done o => exact fun hh => hh
          | found t c => exact fun hh => hh.elim
          | eof => exact fun hh => hh.elim
        | inr x =>
          obtain ⟨top, la', col', dropped'⟩ := x
          rintro ⟨hi, hl, htop, hsh, hlc', hcol', hnone⟩
          dsimp only
          have h3 := recoverPush_inv2 T C TT F G (unrecognized T s la) s1.states.length s2 top la' col' dropped' hi hl htop hsh hlc' hcol'
          revert h3
          cases recoverPush T (unrecognized T s la) s1.states.length s2 top la' col' dropped' with
          | mk s3 r3 =>
            cases r3 with
            | found t c =>
              intro h3
              refine ⟨h3.1, h3.2.1, ?_⟩
              cases la with
              | some _ => rfl
              | none => have := hnone rfl; rw [this] at h3; cases h3.2.2
            | eof => exact fun h3 => h3.1
            | done o => exact fun hh => hh

/-! ### the main loops -/

theorem parseEof_inv2 (F : CertFacts T C) (G : TyFacts T TT) :
    ∀ (fuel : Nat) (s : St), Inv2 T C TT s → EndOk (parseEof T env s fuel).1 (parseEof T env s fuel).2 := by
  intro fuel
  induction fuel with
  | zero => intro s _; unfold parseEof; trivial
  | succ f ih =>
    intro s h
    unfold parseEof
    cases hr : asReduce (eofActionAt T (topState s)) with
    | some r =>
      dsimp only
      have hred := F.redEof (topState s) r hr
      have := reduce_inv2 T C TT env F G s r none h hred
      revert this
      cases reduce T env s r none with
      | mk s' oo =>
        cases oo with
        | some o => exact fun hh => hh
        | none => exact fun hh => ih s' hh
    | none =>
      dsimp only
      have := errorRecovery_inv2 T C TT env F G s none none f h rfl (by intro l c hl; cases hl)
      revert this
      cases errorRecovery T env s none none f with
      | mk s' r =>
        cases r with
        | found t c => intro h'; have := h'.2.2; cases this
        | eof => exact fun h' => ih s' h'
        | done o => exact fun hh => hh

theorem parseInner_inv2 (F : CertFacts T C) (G : TyFacts T TT) :
    ∀ (fuel : Nat) (s : St) (la : Token) (col : Nat), Inv2 T C TT s → TokTy TT col la →
      match parseInner T env s la col fuel with
      | (s', .inl ()) => Inv2 T C TT s'
      | (s', .inr o) => EndOk s' o := by
  intro fuel
  induction fuel with
  | zero => intro s la col _ _; unfold parseInner; trivial
  | succ f ih =>
    intro s la col h hcol
    unfold parseInner
    dsimp only
    cases hs : asShift (actionAt T (topState s) col) with
    | some target =>
      dsimp only
      obtain ⟨st, hst⟩ := topState_of_chain' C h.chain
      have hedge := F.shift (topState s) col target hs
      refine ⟨?_, ?_, ?_⟩
      case refine_3 =>
        intro hrec
        rcases h.recok hrec with ⟨x, hx, hid⟩ | he
        · exact Or.inl ⟨x, List.mem_cons_of_mem _ hx, hid⟩
        · exact Or.inr he
      · show Chain C (target :: s.states) (_ :: s.syms)
        have hc := h.chain
        rw [hst] at hc ⊢
        exact Chain.step hc hedge
      · intro y hy
        rcases List.mem_cons.mp hy with rfl | hy
        · show HasTy _ (symTy TT col) (.tok la.text)
          exact HasTy.mono False.elim _ _ hcol
        · exact h.typed y hy
    | none =>
      dsimp only
      cases hr : asReduce (actionAt T (topState s) col) with
      | some r =>
        dsimp only
        have hred := F.red (topState s) col r hr
        have := reduce_inv2 T C TT env F G s r (some la.start) h hred
        revert this
        cases reduce T env s r (some la.start) with
        | mk s' oo =>
          cases oo with
          | some o =>
            cases o with
            | accept v => exact fun _ => trivial
            | error e => exact fun hh => hh
            | panic m => exact fun hh => hh
            | actionPanic p => exact fun hh => hh
            | fuelOut => exact fun hh => hh
          | none => exact fun h' => ih s' la col h' hcol
      | none =>
        dsimp only
        have := errorRecovery_inv2 T C TT env F G s (some la) (some col) f h rfl (by intro l c hl hc; cases hl; cases hc; exact hcol)
        revert this
        cases errorRecovery T env s (some la) (some col) f with
        | mk s' r =>
          cases r with
          | found l c => exact fun h' => ih s' l c h'.1 h'.2.1
          | eof => exact fun h' => parseEof_inv2 T C TT env F G f s' h'
          | done o => exact fun hh => hh

theorem parseLoop_inv2 (F : CertFacts T C) (G : TyFacts T TT) :
    ∀ (fuel : Nat) (s : St), Inv2 T C TT s → EndOk (parseLoop T env s fuel).1 (parseLoop T env s fuel).2 := by
  intro fuel
  induction fuel with
  | zero => intro s _; unfold parseLoop; trivial
  | succ f ih =>
    intro s h
    unfold parseLoop
    have hn := nextToken_inv2 T C TT G s h
    revert hn
    cases nextToken T s with
    | mk s' r =>
      cases r with
      | eof => exact fun hn => parseEof_inv2 T C TT env F G f s' hn
      | done o => exact fun hh => hh
      | found la col =>
        intro hn
        dsimp only
        have := parseInner_inv2 T C TT env F G f s' la col hn.1 hn.2
        revert this
        cases parseInner T env s' la col f with
        | mk s'' r' =>
          cases r' with
          | inl u => cases u; exact fun h' => ih s'' h'
          | inr o => exact fun hh => hh

theorem inv2_init (text : List Char) : Inv2 T C TT { input := text } :=
  ⟨Chain.base, (by intro x hx; cases hx), (by intro h; cases h)⟩

/-- **For every input**: the run ends in a state and outcome such that an accepted value is an
    `Option<Aidl>` which is `None` only if an Error has been reported, and a stop inside an action
    is never a `shape` or `table` panic. -/
theorem parse_end_ok (F : CertFacts T C) (G : TyFacts T TT) (text : List Char) (fuel : Nat) :
    EndOk (parseLoop T env { input := text } fuel).1 (parseLoop T env { input := text } fuel).2 :=
  parseLoop_inv2 T C TT env F G fuel _ (inv2_init T C TT text)

end Aidl.Props.LrTyped
