import AidlVerif.Props.JavadocWords

/-!
# C18 — `parse_javadoc` without regular expressions: a direct specification, equal for every body

The three regular-expression searches of `parse_javadoc` are each equal — for EVERY text — to a direct
scanner that reads like the rule it implements:

* `scanPar`   (`\r?\n[ \t*]*\r?\n`): a line break, blanks / stars, a line break;
* `scanNoise` (`[ \t\r\n*]*\n[ \t\r\n*]*`): a maximal run of blanks, stars and line breaks that holds a `\n`;
* `scanAt`    (`([^\n])[ \t]*@`): a character other than `\n`, blanks, `@`.

The proofs evaluate the backtracking matcher exactly (`starLoop_cls`: a `star` over a character class
tries the longest run first and then every shorter one), so they say which match the leftmost-first
semantics picks, not only that one exists. `parseJavadoc_eq_spec`: the model of `parse_javadoc` equals
`parseJavadocSpec`, the same pipeline over the scanners — no expression, no matcher, no star bound.
-/

namespace Aidl.Props.JavadocSpec
open Aidl.Regex Aidl.Javadoc Aidl.Props.JavadocTotal Aidl.Props.LexerBounds Aidl.Props.LexerProgress
  Aidl.Props.JavadocWords

/-- the continuation of `matchAt` -/
def acc : K := fun _ p' => some p'

/-- a `star` over a class on a run of class characters: the longest prefix first, then every shorter one -/
def tryFrom (k : K) : List Char → List Char → Nat → Option Nat
  | [], rest, p => k rest p
  | c :: run, rest, p =>
    match tryFrom k run rest (p + c.utf8Size) with
    | some r => some r
    | none => k (c :: run ++ rest) p

/-- `rest` does not begin with a character of the class -/
def HeadOut (rs : List (Nat × Nat)) (rest : List Char) : Prop := ∀ c t, rest = c :: t → inCls rs c = false

theorem m_cls_cons (rs : List (Nat × Nat)) (f : Nat) (c : Char) (s : List Char) (p : Nat) (k : K) :
    m (.cls rs) f (c :: s) p k = if inCls rs c then k s (p + c.utf8Size) else none := rfl

theorem m_seq (a b : Re) (f : Nat) (s : List Char) (p : Nat) (k : K) :
    m (.seq a b) f s p k = m a f s p (fun s' p' => m b f s' p' k) := rfl

theorem m_star (a : Re) (f : Nat) (s : List Char) (p : Nat) (k : K) :
    m (.star a) f s p k = starLoop (m a f) k f s p := rfl

theorem mem_takeWhile_imp {α} (q : α → Bool) : ∀ (l : List α) (x : α), x ∈ l.takeWhile q → q x = true
  | [], _, h => by cases h
  | a :: l, x, h => by
    by_cases ha : q a = true
    · rw [List.takeWhile_cons_of_pos ha] at h
      rcases List.mem_cons.mp h with rfl | h
      · exact ha
      · exact mem_takeWhile_imp q l x h
    · rw [List.takeWhile_cons_of_neg ha] at h; cases h

theorem dropWhile_head_not {α} (q : α → Bool) : ∀ (l : List α) (c : α) (t : List α), l.dropWhile q = c :: t → q c = false
  | [], _, _, h => by cases h
  | a :: l, c, t, h => by
    by_cases ha : q a = true
    · rw [List.dropWhile_cons_of_pos ha] at h; exact dropWhile_head_not q l c t h
    · rw [List.dropWhile_cons_of_neg ha] at h
      cases h
      simpa using ha

theorem starLoop_cls (rs : List (Nat × Nat)) (f : Nat) (k : K) :
    ∀ (run rest : List Char) (n p : Nat), run.length ≤ n → (∀ c ∈ run, inCls rs c = true) → HeadOut rs rest →
      starLoop (m (.cls rs) f) k n (run ++ rest) p = tryFrom k run rest p := by
  intro run
  induction run with
  | nil =>
    intro rest n p _ _ hout
    simp only [List.nil_append, tryFrom]
    cases n with
    | zero => rfl
    | succ n =>
      simp only [starLoop]
      cases rest with
      | nil => simp [m]
      | cons c t => simp [m, hout c t rfl]
  | cons c run ih =>
    intro rest n p hn hin hout
    cases n with
    | zero => simp at hn
    | succ n =>
      have hc : inCls rs c = true := hin c (by simp)
      have hpos := utf8Size_pos c
      rw [List.cons_append, starLoop, m_cls_cons, if_pos hc]
      rw [if_pos (by omega), ih rest n (p + c.utf8Size) (by simp at hn; omega) (fun d hd => hin d (by simp [hd])) hout]
      rfl

theorem tryFrom_acc (run rest : List Char) (p : Nat) : tryFrom acc run rest p = some (p + utf8Len run) := by
  induction run generalizing p with
  | nil => simp [tryFrom, acc, utf8Len_nil]
  | cons c run ih =>
    simp only [tryFrom, ih, utf8Len_cons, Nat.add_assoc]

/-! ### `[ \t\r\n*]*\n[ \t\r\n*]*` -/

def cls5 : List (Nat × Nat) := [(32, 32), (9, 9), (13, 13), (10, 10), (42, 42)]
def isNoise (c : Char) : Bool := inCls cls5 c

theorem reLineNoise_eq : reLineNoise = .seq (.star (.cls cls5)) (.seq (.cls [(10, 10)]) (.star (.cls cls5))) := rfl

theorem inCls_nl (c : Char) : inCls [(10, 10)] c = true ↔ c = '\n' := by
  constructor
  · intro h; rw [eq_of_inCls_single 10 c h]
  · intro h; subst h; decide

/-- what follows the first star of `reLineNoise` -/
def kNoise (f : Nat) : K := fun s1 p1 => m (.seq (.cls [(10, 10)]) (.star (.cls cls5))) f s1 p1 acc

theorem kNoise_cons (f : Nat) (c : Char) (s : List Char) (p : Nat) :
    kNoise f (c :: s) p = if c = '\n' then starLoop (m (.cls cls5) f) acc f s (p + c.utf8Size) else none := by
  unfold kNoise
  simp only [m]
  by_cases h : c = '\n'
  · subst h; rfl
  · have : inCls [(10, 10)] c = false := by
      cases hc : inCls [(10, 10)] c with
      | false => rfl
      | true => exact absurd ((inCls_nl c).mp hc) h
    simp [this, h]

theorem tryFrom_kNoise (f : Nat) : ∀ (run rest : List Char) (p : Nat), run.length ≤ f →
    (∀ c ∈ run, isNoise c = true) → HeadOut cls5 rest →
      tryFrom (kNoise f) run rest p = if '\n' ∈ run then some (p + utf8Len run) else none := by
  intro run
  induction run with
  | nil =>
    intro rest p _ _ hout
    simp only [tryFrom, List.not_mem_nil, if_false]
    cases rest with
    | nil => simp [kNoise, m]
    | cons c t =>
      rw [kNoise_cons]
      have : c ≠ '\n' := by
        intro h; subst h
        have := hout _ t rfl
        revert this; decide
      simp [this]
  | cons c run ih =>
    intro rest p hlen hin hout
    have hlen' : run.length ≤ f := by simp at hlen; omega
    have hin' : ∀ d ∈ run, isNoise d = true := fun d hd => hin d (by simp [hd])
    simp only [tryFrom]
    rw [ih rest (p + c.utf8Size) hlen' hin' hout]
    by_cases hnl : '\n' ∈ run
    · simp only [hnl, if_true, List.mem_cons, or_true]
      rw [utf8Len_cons]; congr 1; omega
    · simp only [hnl, if_false]
      rw [List.cons_append, kNoise_cons]
      by_cases hc : c = '\n'
      · subst hc
        rw [if_pos rfl, starLoop_cls cls5 f acc run rest f _ hlen' hin' hout, tryFrom_acc]
        simp only [List.mem_cons, true_or, if_true]
        rw [utf8Len_cons]; congr 1; omega
      · have : ¬ ('\n' ∈ c :: run) := by
          simp only [List.mem_cons, not_or]
          exact ⟨fun h => hc h.symm, hnl⟩
        simp [hc, this]

/-- the maximal run of noise characters at the start of a text, and what follows it -/
theorem span_noise (s : List Char) :
    s = s.takeWhile isNoise ++ s.dropWhile isNoise ∧ (∀ c ∈ s.takeWhile isNoise, isNoise c = true)
      ∧ HeadOut cls5 (s.dropWhile isNoise) := by
  refine ⟨(List.takeWhile_append_dropWhile).symm, fun c hc => mem_takeWhile_imp isNoise s c hc, ?_⟩
  intro c t ht
  exact dropWhile_head_not isNoise s c t ht

/-- the anchored match of `reLineNoise`, exactly -/
def noiseAt (s : List Char) (p : Nat) : Option Nat :=
  if '\n' ∈ s.takeWhile isNoise then some (p + utf8Len (s.takeWhile isNoise)) else none

theorem matchAt_noise (f : Nat) (s : List Char) (p : Nat) (hf : s.length ≤ f) :
    matchAt reLineNoise f s p = noiseAt s p := by
  obtain ⟨hs, hin, hout⟩ := span_noise s
  have hlen : (s.takeWhile isNoise).length ≤ f := Nat.le_trans (List.takeWhile_sublist _).length_le hf
  unfold matchAt noiseAt
  rw [reLineNoise_eq]
  simp only [m]
  show starLoop (m (.cls cls5) f) (kNoise f) f s p = _
  conv => lhs; rw [hs]
  rw [starLoop_cls cls5 f (kNoise f) _ _ f p hlen hin hout, tryFrom_kNoise f _ _ p hlen hin hout]

/-! ### a leftmost search is a scan with the anchored match -/

def scanWith (at_ : List Char → Nat → Option Nat) : List Char → Nat → Option (Nat × Nat)
  | [], p => (at_ [] p).map (fun e => (p, e))
  | c :: s, p =>
    match at_ (c :: s) p with
    | some e => some (p, e)
    | none => scanWith at_ s (p + c.utf8Size)

theorem findFrom_scan (r : Re) (f : Nat) (at_ : List Char → Nat → Option Nat)
    (h : ∀ s p, s.length ≤ f → matchAt r f s p = at_ s p) :
    ∀ (s : List Char) (p : Nat), s.length ≤ f → findFrom r f s p = scanWith at_ s p := by
  intro s
  induction s with
  | nil => intro p hf; simp only [findFrom, scanWith, h [] p hf]
  | cons c s ih =>
    intro p hf
    simp only [findFrom, scanWith, h (c :: s) p hf]
    cases at_ (c :: s) p with
    | some e => rfl
    | none => exact ih _ (by simp at hf; omega)

theorem length_le_utf8Len (s : List Char) : s.length ≤ utf8Len s := by
  induction s with
  | nil => simp [utf8Len_nil]
  | cons c s ih => rw [utf8Len_cons, List.length_cons]; have := utf8Size_pos c; omega

/-! ### `\r?\n` followed by a continuation -/

def nlPrefix : List Char → Option (List Char × Nat)
  | '\r' :: '\n' :: t => some (t, 2)
  | '\n' :: t => some (t, 1)
  | _ => none

theorem inCls_cr (c : Char) : inCls [(13, 13)] c = true ↔ c = '\r' := by
  constructor
  · intro h; rw [eq_of_inCls_single 13 c h]
  · intro h; subst h; decide

theorem m_optcr_nl (f : Nat) (s : List Char) (p : Nat) (k : K) :
    m (.alt (.cls [(13, 13)]) .eps) f s p (fun s1 p1 => m (.cls [(10, 10)]) f s1 p1 k)
      = match nlPrefix s with
        | some (t, d) => k t (p + d)
        | none => none := by
  cases s with
  | nil => simp [m, nlPrefix]
  | cons c t =>
    by_cases hcr : c = '\r'
    · subst hcr
      cases t with
      | nil =>
        have e1 : inCls [(13, 13)] '\r' = true := by decide
        have e3 : inCls [(10, 10)] '\r' = false := by decide
        simp [m, nlPrefix, e1, e3]
      | cons d t' =>
        by_cases hd : d = '\n'
        · subst hd
          have e1 : inCls [(13, 13)] '\r' = true := by decide
          have e2 : inCls [(10, 10)] '\n' = true := by decide
          have e3 : inCls [(10, 10)] '\r' = false := by decide
          simp only [m, e1, e2, e3, if_true, nlPrefix]
          have : ('\r' : Char).utf8Size = 1 := by decide
          have : ('\n' : Char).utf8Size = 1 := by decide
          cases hk : k t' (p + 2) with
          | some r => simp_all [Nat.add_assoc]
          | none => simp_all [Nat.add_assoc]
        · have e1 : inCls [(13, 13)] '\r' = true := by decide
          have e3 : inCls [(10, 10)] '\r' = false := by decide
          have e4 : inCls [(10, 10)] d = false := by
            cases h : inCls [(10, 10)] d with
            | false => rfl
            | true => exact absurd ((inCls_nl d).mp h) hd
          have hnp : nlPrefix ('\r' :: d :: t') = none := by
            unfold nlPrefix
            split
            · rename_i heq; cases heq; exact absurd rfl hd
            · rename_i heq; cases heq
            · rfl
          simp [m, e1, e3, e4, hnp]
    · by_cases hnl : c = '\n'
      · subst hnl
        have e1 : inCls [(13, 13)] '\n' = false := by decide
        have e2 : inCls [(10, 10)] '\n' = true := by decide
        have : ('\n' : Char).utf8Size = 1 := by decide
        simp [m, e1, e2, nlPrefix, this]
      · have e1 : inCls [(13, 13)] c = false := by
          cases h : inCls [(13, 13)] c with
          | false => rfl
          | true => exact absurd ((inCls_cr c).mp h) hcr
        have e2 : inCls [(10, 10)] c = false := by
          cases h : inCls [(10, 10)] c with
          | false => rfl
          | true => exact absurd ((inCls_nl c).mp h) hnl
        have hnp : nlPrefix (c :: t) = none := by
          unfold nlPrefix
          split
          · rename_i heq; cases heq; exact absurd rfl hcr
          · rename_i heq; cases heq; exact absurd rfl hnl
          · rfl
        simp [m, e1, e2, hnp]

/-! ### `\r?\n[ \t*]*\r?\n` -/

def cls3 : List (Nat × Nat) := [(32, 32), (9, 9), (42, 42)]
def isC3 (c : Char) : Bool := inCls cls3 c

theorem reParagraph_eq : reParagraph
    = .seq (.alt (.cls [(13, 13)]) .eps) (.seq (.cls [(10, 10)]) (.seq (.star (.cls cls3))
        (.seq (.alt (.cls [(13, 13)]) .eps) (.cls [(10, 10)])))) := rfl

/-- the second `\r?\n`, followed by the end of the match -/
def kPar2 (f : Nat) : K := fun s p => m (.seq (.alt (.cls [(13, 13)]) .eps) (.cls [(10, 10)])) f s p acc

theorem kPar2_eq (f : Nat) (s : List Char) (p : Nat) :
    kPar2 f s p = match nlPrefix s with
      | some (_, d) => some (p + d)
      | none => none := by
  unfold kPar2
  rw [m_seq, m_optcr_nl f s p acc]
  cases nlPrefix s with
  | none => rfl
  | some td => rfl

theorem nlPrefix_c3 (c : Char) (t : List Char) (h : isC3 c = true) : nlPrefix (c :: t) = none := by
  have h1 : c ≠ '\r' := by intro e; subst e; revert h; decide
  have h2 : c ≠ '\n' := by intro e; subst e; revert h; decide
  unfold nlPrefix
  split
  · rename_i heq; cases heq; exact absurd rfl h1
  · rename_i heq; cases heq; exact absurd rfl h2
  · rfl

theorem tryFrom_kPar2 (f : Nat) : ∀ (run rest : List Char) (p : Nat), (∀ c ∈ run, isC3 c = true) →
    tryFrom (kPar2 f) run rest p = kPar2 f rest (p + utf8Len run) := by
  intro run
  induction run with
  | nil => intro rest p _; simp [tryFrom, utf8Len_nil]
  | cons c run ih =>
    intro rest p hin
    simp only [tryFrom]
    rw [ih rest _ (fun d hd => hin d (by simp [hd])), utf8Len_cons, Nat.add_assoc]
    cases hk : kPar2 f rest (p + (c.utf8Size + utf8Len run)) with
    | some r => rfl
    | none =>
      simp only
      rw [List.cons_append, kPar2_eq, nlPrefix_c3 c _ (hin c (by simp))]

/-- the anchored match of `reParagraph`, exactly: a line break, the blanks and stars after it, a line break -/
def parAt (s : List Char) (p : Nat) : Option Nat :=
  match nlPrefix s with
  | none => none
  | some (t1, d1) =>
    match nlPrefix (t1.dropWhile isC3) with
    | none => none
    | some (_, d2) => some (p + d1 + utf8Len (t1.takeWhile isC3) + d2)

theorem nlPrefix_length (s t : List Char) (d : Nat) (h : nlPrefix s = some (t, d)) : t.length ≤ s.length := by
  unfold nlPrefix at h
  split at h
  · cases h; simp; omega
  · cases h; simp
  · cases h

theorem matchAt_par (f : Nat) (s : List Char) (p : Nat) (hf : s.length ≤ f) : matchAt reParagraph f s p = parAt s p := by
  unfold matchAt parAt
  rw [reParagraph_eq, m_seq]
  show m (.alt (.cls [(13, 13)]) .eps) f s p (fun s1 p1 => m (.cls [(10, 10)]) f s1 p1
    (fun s2 p2 => m (.seq (.star (.cls cls3)) (.seq (.alt (.cls [(13, 13)]) .eps) (.cls [(10, 10)]))) f s2 p2 acc)) = _
  rw [m_optcr_nl f s p]
  cases hn : nlPrefix s with
  | none => rfl
  | some td =>
    obtain ⟨t1, d1⟩ := td
    simp only
    have hlen := nlPrefix_length s t1 d1 hn
    have hs : t1 = t1.takeWhile isC3 ++ t1.dropWhile isC3 := (List.takeWhile_append_dropWhile).symm
    have hin : ∀ c ∈ t1.takeWhile isC3, isC3 c = true := fun c hc => mem_takeWhile_imp isC3 t1 c hc
    have hout : HeadOut cls3 (t1.dropWhile isC3) := fun c t ht => dropWhile_head_not isC3 t1 c t ht
    have hrun : (t1.takeWhile isC3).length ≤ f :=
      Nat.le_trans (List.takeWhile_sublist _).length_le (Nat.le_trans hlen hf)
    show starLoop (m (.cls cls3) f) (kPar2 f) f t1 (p + d1) = _
    conv => lhs; rw [hs]
    rw [starLoop_cls cls3 f (kPar2 f) _ _ f _ hrun hin hout, tryFrom_kPar2 f _ _ _ hin, kPar2_eq]
    cases nlPrefix (t1.dropWhile isC3) with
    | none => rfl
    | some td2 => rfl

/-! ### `([^\n])[ \t]*@` -/

def isWs (c : Char) : Bool := inCls ws4 c

theorem reBeforeAt_eq : reBeforeAt
    = .seq (.cls [(0, 9), (11, 0x10FFFF)]) (.seq (.star (.cls ws4)) (.cls [(64, 64)])) := rfl

def kAt (f : Nat) : K := fun s p => m (.cls [(64, 64)]) f s p acc

theorem inCls_at (c : Char) : inCls [(64, 64)] c = true ↔ c = '@' := by
  constructor
  · intro h; rw [eq_of_inCls_single 64 c h]
  · intro h; subst h; decide

theorem kAt_ws (f : Nat) (c : Char) (t : List Char) (p : Nat) (h : isWs c = true) : kAt f (c :: t) p = none := by
  have h1 : c ≠ '@' := by intro e; subst e; revert h; decide
  have : inCls [(64, 64)] c = false := by
    cases hh : inCls [(64, 64)] c with
    | false => rfl
    | true => exact absurd ((inCls_at c).mp hh) h1
  simp [kAt, m, this]

theorem tryFrom_kAt (f : Nat) : ∀ (run rest : List Char) (p : Nat), (∀ c ∈ run, isWs c = true) →
    tryFrom (kAt f) run rest p = kAt f rest (p + utf8Len run) := by
  intro run
  induction run with
  | nil => intro rest p _; simp [tryFrom, utf8Len_nil]
  | cons c run ih =>
    intro rest p hin
    simp only [tryFrom]
    rw [ih rest _ (fun d hd => hin d (by simp [hd])), utf8Len_cons, Nat.add_assoc]
    cases hk : kAt f rest (p + (c.utf8Size + utf8Len run)) with
    | some r => rfl
    | none =>
      simp only
      rw [List.cons_append, kAt_ws f c _ p (hin c (by simp))]

/-- the anchored match of `reBeforeAt`, exactly: a character other than `\n`, blanks, `@` -/
def atAt (s : List Char) (p : Nat) : Option Nat :=
  match s with
  | [] => none
  | c :: t =>
    if c = '\n' then none else
    match t.dropWhile isWs with
    | d :: _ => if d = '@' then some (p + c.utf8Size + utf8Len (t.takeWhile isWs) + 1) else none
    | [] => none

theorem inCls_notnl (c : Char) : inCls [(0, 9), (11, 0x10FFFF)] c = true ↔ c ≠ '\n' := by
  have hv : c.toNat < 0x110000 := by
    have := c.valid
    simp only [UInt32.isValidChar, Nat.isValidChar] at this
    show c.val.toNat < _
    omega
  constructor
  · intro h e; subst e; revert h; decide
  · intro h
    have hne : c.toNat ≠ 10 := by
      intro e; exact h (by rw [char_of_toNat c 10 e])
    simp only [inCls, List.any_cons, List.any_nil, Bool.or_false, Bool.or_eq_true, Bool.and_eq_true, decide_eq_true_eq]
    omega

theorem matchAt_at (f : Nat) (s : List Char) (p : Nat) (hf : s.length ≤ f) : matchAt reBeforeAt f s p = atAt s p := by
  unfold matchAt atAt
  rw [reBeforeAt_eq]
  cases s with
  | nil => simp [m]
  | cons c t =>
    by_cases hc : c = '\n'
    · subst hc
      have : inCls [(0, 9), (11, 0x10FFFF)] '\n' = false := by decide
      simp [m, this]
    · have hin1 : inCls [(0, 9), (11, 0x10FFFF)] c = true := (inCls_notnl c).mpr hc
      simp only [m, hin1, if_true, hc, if_false]
      have hs : t = t.takeWhile isWs ++ t.dropWhile isWs := (List.takeWhile_append_dropWhile).symm
      have hin : ∀ c ∈ t.takeWhile isWs, isWs c = true := fun c hc => mem_takeWhile_imp isWs t c hc
      have hout : HeadOut ws4 (t.dropWhile isWs) := fun c t' ht => dropWhile_head_not isWs t c t' ht
      have hrun : (t.takeWhile isWs).length ≤ f :=
        Nat.le_trans (List.takeWhile_sublist _).length_le (by simp at hf; omega)
      show starLoop (m (.cls ws4) f) (kAt f) f t (p + c.utf8Size) = _
      conv => lhs; rw [hs]
      rw [starLoop_cls ws4 f (kAt f) _ _ f _ hrun hin hout, tryFrom_kAt f _ _ _ hin]
      cases hd : t.dropWhile isWs with
      | nil => simp [kAt, m]
      | cons d t' =>
        by_cases hat : d = '@'
        · subst hat
          have : inCls [(64, 64)] '@' = true := by decide
          have h1 : ('@' : Char).utf8Size = 1 := by decide
          simp [kAt, m, this, acc, h1]
        · have : inCls [(64, 64)] d = false := by
            cases hh : inCls [(64, 64)] d with
            | false => rfl
            | true => exact absurd ((inCls_at d).mp hh) hat
          simp [kAt, m, this, hat]

/-! ### the three searches of `parse_javadoc` are scans -/

def scanPar (s : List Char) : Option (Nat × Nat) := scanWith parAt s 0
def scanNoise (s : List Char) : Option (Nat × Nat) := scanWith noiseAt s 0
def scanAt (s : List Char) : Option (Nat × Nat) := scanWith atAt s 0

theorem find_par (s : List Char) : findFrom reParagraph (utf8Len s) s 0 = scanPar s :=
  findFrom_scan _ _ parAt (fun s p h => matchAt_par _ s p h) s 0 (length_le_utf8Len s)

theorem find_noise (s : List Char) : findFrom reLineNoise (utf8Len s) s 0 = scanNoise s :=
  findFrom_scan _ _ noiseAt (fun s p h => matchAt_noise _ s p h) s 0 (length_le_utf8Len s)

theorem find_at (s : List Char) : findFrom reBeforeAt (utf8Len s) s 0 = scanAt s :=
  findFrom_scan _ _ atAt (fun s p h => matchAt_at _ s p h) s 0 (length_le_utf8Len s)

/-- `split` over any way of finding the next separator -/
def splitWith (find : List Char → Option (Nat × Nat)) : Nat → List Char → List (List Char)
  | 0, s => [s]
  | fuel + 1, s =>
    match find s with
    | some (a, b) => if b = a then [s] else takeBytes a s :: splitWith find fuel (dropBytes b s)
    | none => [s]

/-- `replace_all` over any way of finding the next match -/
def replaceWith (find : List Char → Option (Nat × Nat)) (rep : List Char → List Char) : Nat → List Char → List Char
  | 0, s => s
  | fuel + 1, s =>
    match find s with
    | some (a, b) =>
      if b = a then s
      else takeBytes a s ++ rep (takeBytes (b - a) (dropBytes a s)) ++ replaceWith find rep fuel (dropBytes b s)
    | none => s

theorem splitRe_eq (r : Re) (find : List Char → Option (Nat × Nat)) (h : ∀ s, findFrom r (utf8Len s) s 0 = find s) :
    ∀ (n : Nat) (s : List Char), splitRe r n s = splitWith find n s := by
  intro n
  induction n with
  | zero => intro s; rfl
  | succ n ih =>
    intro s
    rw [splitRe, splitWith, h s]
    cases find s with
    | none => rfl
    | some ab =>
      obtain ⟨a, b⟩ := ab
      simp only
      split
      · rfl
      · rw [ih]

theorem replaceAll_eq (r : Re) (rep : List Char → List Char) (find : List Char → Option (Nat × Nat))
    (h : ∀ s, findFrom r (utf8Len s) s 0 = find s) :
    ∀ (n : Nat) (s : List Char), replaceAll r rep n s = replaceWith find rep n s := by
  intro n
  induction n with
  | zero => intro s; rfl
  | succ n ih =>
    intro s
    rw [replaceAll, replaceWith, h s]
    cases find s with
    | none => rfl
    | some ab =>
      obtain ⟨a, b⟩ := ab
      simp only
      split
      · rfl
      · rw [ih]

/-- `parse_javadoc` over the three scanners: no regular expression, no matcher, no star bound -/
def parseJavadocSpec (s : List Char) : List Char :=
  let n := s.length + 1
  let paragraphs := splitWith scanPar n s
  let lines := paragraphs.map fun p =>
    let t := trimMatches p
    let t := replaceWith scanNoise (fun _ => [' ']) n t
    replaceWith scanAt (fun m => (m.take 1) ++ ['\n', '@']) n t
  intercalate ['\n'] lines

/-- **For every body**, the regular-expression pipeline of `parse_javadoc` computes the direct
    specification. -/
theorem parseJavadoc_eq_spec (s : List Char) : parseJavadoc s = parseJavadocSpec s := by
  unfold parseJavadoc parseJavadocSpec
  simp only
  rw [splitRe_eq reParagraph scanPar find_par]
  congr 1
  apply List.map_congr_left
  intro p _
  rw [replaceAll_eq reLineNoise _ scanNoise find_noise, replaceAll_eq reBeforeAt _ scanAt find_at]

/-- sanity (kernel evaluation of the specification): the structured body of `C18.paragraphs_and_tags` -/
example : parseJavadocSpec "\r\n * Größe 日本\r\n * 🎉 ok\r\n *\r\n * second\r\n * @param x é\r\n ".toList
    = "Größe 日本 🎉 ok\nsecond\n@param x é".toList := by decide +kernel

end Aidl.Props.JavadocSpec
