import AidlVerif.Props.ActionsSafe
import AidlVerif.Props.LrSafeCert

/-!
# C01, parse stage — for EVERY text: no panic of the LR driver, no out-of-bounds panic

`addContent_stops`: with the tables regenerated from the generated parser of this run (whose
stack-shape certificate the kernel has checked, `cert_ok`) and an environment whose line/column
lookup is defined on every character boundary of the text, the model's `add_content` either returns a
result or stops for one of the reasons the theorem lists — and these never include

* a panic of the LR driver (`__symbol_type_mismatch`, stack underflow, a failed `unwrap()`), nor
* a panic of kind `bounds` (`Range::new` off a character boundary or outside the text, a slice of
  `javadoc.rs` — the two defects the property text names).

What remains possible in the MODEL and is NOT excluded by this theorem: `fuelOut` (termination of the
LR driver is not proved), `shape` / `table` / `acceptShape` (the model's semantic values are untyped;
the generated Rust is typed by rustc), `lexical` (`unreachable!()` of `Direction`). Each of them is an
explicit outcome and is compared with the implementation's outcome on every case of every run.
-/

namespace Aidl.Props.ParseTotal
open Aidl Aidl.Lr Aidl.Actions Aidl.Lexer
open Aidl.Props.LrInv Aidl.Props.LrSafe Aidl.Props.ActionsSafe

/-- the reasons the theorem allows -/
def Allowed : Stop → Prop
  | .driver _ => False
  | .action p => p.kind ≠ .bounds
  | .fuelOut => True
  | .acceptShape => True

theorem safe_fromParseError {env : Env} {I : List Char} (hE : EnvOk env I) {e : ParseErr} (he : GoodErr I e) :
    Safe env (fromParseError e) (DiagLc env) := by
  unfold fromParseError
  cases e with
  | invalidToken l => exact Safe.bind _ (safe_mkRange hE he he) (fun _ hr => Safe.pure _ _ (diagLc_mk hr _ _ _ _))
  | unrecognizedEof l ex => exact Safe.bind _ (safe_mkRange hE he he) (fun _ hr => Safe.pure _ _ (diagLc_mk hr _ _ _ _))
  | unrecognizedToken t ex => exact Safe.bind _ (safe_mkRange hE he.1 he.2) (fun _ hr => Safe.pure _ _ (diagLc_mk hr _ _ _ _))
  | extraToken t => exact Safe.bind _ (safe_mkRange hE he.1 he.2) (fun _ hr => Safe.pure _ _ (diagLc_mk hr _ _ _ _))

theorem finishE_allowed {env : Env} {I : List Char} (hE : EnvOk env I) (id : String) (s : St) (o : Outcome)
    (ho : GoodOutcome env I o) (hd : DiagsLc env s.diags) (st : Stop) (h : finishE env id s o = .error st) : Allowed st := by
  unfold finishE at h
  cases o with
  | panic m => exact ho.elim
  | actionPanic p => cases h; exact ho
  | fuelOut => cases h; trivial
  | accept v =>
    dsimp only at h
    split at h
    · cases h
    · cases h
    · cases h; trivial
  | error e =>
    dsimp only at h
    have := safe_fromParseError hE ho s.diags hd
    revert this
    cases hr : (ReaderT.run (fromParseError e) env).run s.diags with
    | error m => intro hm; rw [hr] at h; cases h; exact hm
    | ok x => intro _; rw [hr] at h; cases h

/-- what `finishE` returns: every diagnostic of the result is good -/
theorem finishE_diags {env : Env} {I : List Char} (hE : EnvOk env I) (id : String) (s : St) (o : Outcome)
    (ho : GoodOutcome env I o) (hd : DiagsLc env s.diags) (r : FileResult) (h : finishE env id s o = .ok r) :
    DiagsLc env r.diags := by
  unfold finishE at h
  cases o with
  | panic m => cases h
  | actionPanic p => cases h
  | fuelOut => cases h
  | accept v =>
    dsimp only at h
    split at h
    · cases h; exact hd
    · cases h; exact hd
    · cases h
  | error e =>
    dsimp only at h
    have := safe_fromParseError hE ho s.diags hd
    revert this
    cases hr : (ReaderT.run (fromParseError e) env).run s.diags with
    | error m => intro _; rw [hr] at h; cases h
    | ok x =>
      obtain ⟨d, ds'⟩ := x
      intro hh
      rw [hr] at h
      cases h
      intro y hy
      rcases List.mem_append.mp hy with h1 | h1
      · exact hh.2 y h1
      · simp only [List.mem_cons, List.mem_nil_iff, or_false] at h1; rw [h1]; exact hh.1

/-- **For every table with an accepted certificate, every text and every environment that knows the
    text's character boundaries**: `add_content` returns, or stops for an allowed reason. -/
theorem addContent_stops_gen (T : Tables) (C : Cert) (hC : C.ok T = true) (env : Env) (id text : String)
    (hE : EnvOk env text.toList) (st : Stop) (h : addContentE T env id text = .error st) : Allowed st := by
  unfold addContentE at h
  have ho := parse_outcome_good T C env (certFacts T C hC) text.toList (actionsSafe T env text.toList hE) (parseFuel text)
  exact finishE_allowed hE id _ _ ho (parse_diags_good T C env (certFacts T C hC) text.toList (actionsSafe T env text.toList hE) (parseFuel text)) st h

/-- … instantiated with the tables and the certificate of THIS run -/
theorem addContent_stops (env : Env) (id text : String) (hE : EnvOk env text.toList) (st : Stop)
    (h : addContentE Driver.Parse.tables env id text = .error st) : Allowed st :=
  addContent_stops_gen Driver.Parse.tables cert cert_ok env id text hE st h

/-- in particular: no panic message of the driver and no `bounds` panic ever comes out -/
theorem addContent_no_driver_no_bounds_gen (T : Tables) (C : Cert) (hC : C.ok T = true) (env : Env) (id text : String)
    (hE : EnvOk env text.toList) :
    (∀ m, addContentE T env id text ≠ .error (.driver m)) ∧
    (∀ m, addContentE T env id text ≠ .error (.action ⟨.bounds, m⟩)) := by
  constructor
  · intro m h
    exact addContent_stops_gen T C hC env id text hE _ h
  · intro m h
    exact (addContent_stops_gen T C hC env id text hE _ h) rfl

theorem addContent_no_driver_no_bounds (env : Env) (id text : String) (hE : EnvOk env text.toList) :
    (∀ m, addContentE Driver.Parse.tables env id text ≠ .error (.driver m)) ∧
    (∀ m, addContentE Driver.Parse.tables env id text ≠ .error (.action ⟨.bounds, m⟩)) :=
  addContent_no_driver_no_bounds_gen Driver.Parse.tables cert cert_ok env id text hE

/-- every syntax error the run returns lies on character boundaries of the text (C04) -/
theorem parse_error_on_boundaries_gen (T : Tables) (C : Cert) (hC : C.ok T = true) (env : Env) (text : String)
    (hE : EnvOk env text.toList) (fuel : Nat) (e : ParseErr)
    (h : (parseLoop T env { input := text.toList } fuel).2 = .error e) : GoodErr text.toList e := by
  have ho := parse_outcome_good T C env (certFacts T C hC) text.toList (actionsSafe T env text.toList hE) fuel
  rw [h] at ho
  exact ho

theorem parse_error_on_boundaries (env : Env) (text : String) (hE : EnvOk env text.toList) (fuel : Nat) (e : ParseErr)
    (h : (parseLoop Driver.Parse.tables env { input := text.toList } fuel).2 = .error e) : GoodErr text.toList e :=
  parse_error_on_boundaries_gen Driver.Parse.tables cert cert_ok env text hE fuel e h

/-- **Every position stored in a returned tree is good (C04), for every text**: its offset is a
    character boundary of the text and its line and column are what the lookup assigns to that
    offset — for the package, the imports, the item, every member, argument, direction and every
    type node at any depth (`AidlGood`). -/
theorem tree_positions_good_gen (T : Tables) (C : Cert) (hC : C.ok T = true) (env : Env) (id text : String)
    (hE : EnvOk env text.toList) (r : FileResult) (a : AidlFile)
    (h : addContentE T env id text = .ok r) (ha : r.ast = some a) : AidlGood env text.toList a := by
  unfold addContentE at h
  have ho := parse_outcome_good T C env (certFacts T C hC) text.toList (actionsSafe T env text.toList hE) (parseFuel text)
  revert h ho
  generalize parseLoop T env { input := text.toList } (parseFuel text) = p
  obtain ⟨s, o⟩ := p
  intro h ho
  dsimp only at h ho
  unfold finishE at h
  cases o with
  | panic m => cases h
  | actionPanic p => cases h
  | fuelOut => cases h
  | accept v =>
    dsimp only at h
    split at h
    · cases h; cases ha
    · rename_i a'
      cases h
      cases ha
      exact ho
    · cases h
  | error e =>
    dsimp only at h
    split at h
    · cases h
    · cases h; cases ha

theorem tree_positions_good (env : Env) (id text : String) (hE : EnvOk env text.toList) (r : FileResult) (a : AidlFile)
    (h : addContentE Driver.Parse.tables env id text = .ok r) (ha : r.ast = some a) : AidlGood env text.toList a :=
  tree_positions_good_gen Driver.Parse.tables cert cert_ok env id text hE r a h ha

/-- **Every position stored in a diagnostic of the result is one the lookup accepts, with its line and
    column (C04), for every text** — the diagnostics pushed by the error-recovery actions, by the
    transact-code check and the one made from a parse error. -/
theorem diag_positions_good_gen (T : Tables) (C : Cert) (hC : C.ok T = true) (env : Env) (id text : String)
    (hE : EnvOk env text.toList) (r : FileResult) (h : addContentE T env id text = .ok r) : DiagsLc env r.diags := by
  unfold addContentE at h
  have ho := parse_outcome_good T C env (certFacts T C hC) text.toList (actionsSafe T env text.toList hE) (parseFuel text)
  have hd := parse_diags_good T C env (certFacts T C hC) text.toList (actionsSafe T env text.toList hE) (parseFuel text)
  exact finishE_diags hE id _ _ ho hd r h

theorem diag_positions_good (env : Env) (id text : String) (hE : EnvOk env text.toList) (r : FileResult)
    (h : addContentE Driver.Parse.tables env id text = .ok r) : DiagsLc env r.diags :=
  diag_positions_good_gen Driver.Parse.tables cert cert_ok env id text hE r h

/-- non-vacuity of `EnvOk`: the lookup that knows exactly the boundaries of a text -/
def envOf (text : String) : Env :=
  { text := text.toList
    lineCol := fun n => if (Javadoc.splitAtBytes text.toList n).isSome then some (1, 1) else none }

theorem envOf_ok (text : String) : EnvOk (envOf text) text.toList where
  text := rfl
  lineCol := by
    intro n hn
    obtain ⟨pre, post, h1, h2⟩ := hn
    have := JavadocTotal.splitAtBytes_prefix pre post
    simp only [envOf]
    rw [h1, ← h2, this]
    rfl

end Aidl.Props.ParseTotal
