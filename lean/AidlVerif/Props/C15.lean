import AidlVerif.Spec.C15
import AidlVerif.Lemmas.Methods

/-!
# C15 — property theorems (about the model of traverse.rs)
-/

namespace Aidl.Props.C15
open Aidl Aidl.Spec Aidl.Spec.C15

section
variable {σ V : Type}

theorem andThen_assoc (a b c : CF σ V) : (a.andThen b).andThen c = a.andThen (b.andThen c) := by
  funext s
  simp only [CF.andThen]
  rcases a s with ⟨s1, _ | v⟩ <;> simp

theorem continue_andThen (a : CF σ V) : CF.continue_.andThen a = a := by
  funext s; simp [CF.andThen, CF.continue_]

theorem andThen_continue (a : CF σ V) : a.andThen CF.continue_ = a := by
  funext s
  simp only [CF.andThen, CF.continue_]
  rcases a s with ⟨s1, _ | v⟩ <;> simp

theorem tryForEach_append {α} (g : α → CF σ V) (l₁ l₂ : List α) :
    tryForEach g (l₁ ++ l₂) = (tryForEach g l₁).andThen (tryForEach g l₂) := by
  induction l₁ with
  | nil => simp [tryForEach, continue_andThen]
  | cons x xs ih => simp [tryForEach, ih, andThen_assoc]

theorem tryForEach_flatMap {α β} (g : β → CF σ V) (k : α → List β) (l : List α) :
    tryForEach (fun x => tryForEach g (k x)) l = tryForEach g (l.flatMap k) := by
  induction l with
  | nil => rfl
  | cons x xs ih => simp [tryForEach, List.flatMap_cons, tryForEach_append, ih]

theorem tryForEach_map {α β} (g : β → CF σ V) (k : α → β) (l : List α) :
    tryForEach (fun x => g (k x)) l = tryForEach g (l.map k) := by
  induction l with
  | nil => rfl
  | cons x xs ih => simp [tryForEach, ih]

theorem tryForEach_singleton (g : Symbol → CF σ V) (x : Symbol) : tryForEach g [x] = g x := by
  simp [tryForEach, andThen_continue]

variable (f : Symbol → CF σ V)

mutual
theorem visitType_eq : (t : Ty) → visitType f t = tryForEach f (typeSymbols t)
  | .mk n k g sy fu => by
    unfold visitType typeSymbols
    simp only [Ty.walkOrder]
    split
    · rw [visitTypes_eq g, List.map_append, tryForEach_append]
      simp [tryForEach_singleton]
    · rw [visitTypes_eq g]
      simp [tryForEach]
theorem visitTypes_eq : (l : List Ty) → visitTypes f l = tryForEach f ((Ty.walkOrderList l).map Symbol.type)
  | [] => by simp [visitTypes, Ty.walkOrderList, tryForEach]
  | t :: ts => by
    unfold visitTypes
    rw [visitType_eq t, visitTypes_eq ts]
    simp [Ty.walkOrderList, typeSymbols, tryForEach_append]
end

theorem visitArg_eq (filter : SymbolFilter) (m : Method) (a : Arg) :
    visitArg f filter m a = tryForEach f (argSymbols m a) := by
  simp [visitArg, argSymbols, tryForEach, visitType_eq]

theorem visitMethod_eq (filter : SymbolFilter) (i : Interface) (m : Method) :
    visitMethod f filter i m = tryForEach f (methodSymbols filter i m) := by
  unfold visitMethod methodSymbols
  by_cases h : filter = .all
  · simp only [h, if_true, tryForEach, tryForEach_append, visitType_eq]
    congr 2
    have : visitArg f SymbolFilter.all m = fun a => tryForEach f (argSymbols m a) := by
      funext a; exact visitArg_eq f _ m a
    rw [this, tryForEach_flatMap]
  · simp [h, tryForEach, andThen_continue]

theorem visitConst_eq (filter : SymbolFilter) (o : ConstOwner) (c : Const) :
    visitConst f filter o c = tryForEach f (constSymbols filter o c) := by
  unfold visitConst constSymbols
  by_cases h : filter = .all <;> simp [h, tryForEach, visitType_eq, andThen_continue]

theorem visitField_eq (filter : SymbolFilter) (p : Parcelable) (fi : Field) :
    visitField f filter p fi = tryForEach f (fieldSymbols filter p fi) := by
  unfold visitField fieldSymbols
  by_cases h : filter = .all <;> simp [h, tryForEach, visitType_eq, andThen_continue]

theorem visitItem_eq (filter : SymbolFilter) (ast : AidlFile) :
    visitItem f filter ast = tryForEach f (itemSymbols filter ast) := by
  unfold visitItem itemSymbols
  cases ast.item with
  | interface i =>
    simp only [tryForEach]
    congr 1
    by_cases h : filter = .itemsOnly
    · simp [h, tryForEach]
    · simp only [h, if_false]
      have : visitInterfaceElement f filter i = fun el => tryForEach f (interfaceElementSymbols filter i el) := by
        funext el
        cases el with
        | method m => exact visitMethod_eq f filter i m
        | const c => exact visitConst_eq f filter _ c
      rw [this, tryForEach_flatMap]
  | parcelable p =>
    simp only [tryForEach]
    congr 1
    by_cases h : filter = .itemsOnly
    · simp [h, tryForEach]
    · simp only [h, if_false]
      have : visitParcelableElement f filter p = fun el => tryForEach f (parcelableElementSymbols filter p el) := by
        funext el
        cases el with
        | field fi => exact visitField_eq f filter p fi
        | const c => exact visitConst_eq f filter _ c
      rw [this, tryForEach_flatMap]
  | enum e =>
    simp only [tryForEach]
    congr 1
    by_cases h : filter = .itemsOnly
    · simp [h, tryForEach]
    · simp only [h, if_false]
      exact tryForEach_map f (fun el => Symbol.enumElement el e) e.elements

/-- **Refinement**: the control-flow walker is the short-circuit fold of the closure over the
    declarative visit list — for every closure, every closure state, every break value, every
    tree and every filter level. -/
theorem walk_eq (ast : AidlFile) (filter : SymbolFilter) :
    walkSymbolsCF f ast filter = tryForEach f (symbols filter ast) := by
  unfold walkSymbolsCF symbols
  rw [tryForEach_append, visitItem_eq]
  congr 1
  by_cases h : filter = .all
  · simp only [h, if_true, tryForEach]
    congr 1
    exact tryForEach_map f Symbol.import_ ast.imports
  · simp [h, tryForEach]

end

/-! ### corollaries: walk, filter, find -/

theorem tryForEach_never_break {σ} (g : σ → Symbol → σ) (l : List Symbol) (s : σ) :
    (tryForEach (V := Unit) (fun smb s => (g s smb, none)) l s) = (l.foldl g s, none) := by
  induction l generalizing s with
  | nil => rfl
  | cons x xs ih => simp [tryForEach, CF.andThen, ih]

/-- `walk_symbols` calls the closure on exactly the visit list, in order -/
theorem walkSymbols_eq {σ} (ast : AidlFile) (filter : SymbolFilter) (g : σ → Symbol → σ) (s : σ) :
    walkSymbols ast filter g s = (symbols filter ast).foldl g s := by
  unfold walkSymbols
  rw [walk_eq, tryForEach_never_break]

/-- `find_symbol` returns the first visited symbol on which the (possibly stateful) predicate
    answers true, and stops calling the predicate there — for every predicate, including ones
    that select the package -/
theorem find_eq {σ} (ast : AidlFile) (filter : SymbolFilter) (p : σ → Symbol → σ × Bool) (s : σ) :
    findSymbol ast filter p s = findStateful p s (symbols filter ast) := by
  unfold findSymbol
  rw [walk_eq]
  generalize symbols filter ast = l
  induction l generalizing s with
  | nil => rfl
  | cons x xs ih =>
    simp only [tryForEach, CF.andThen, findStateful]
    rcases hp : p s x with ⟨s', b⟩
    cases b <;> simp [ih]

/-- `filter_symbols` returns precisely the visited symbols that satisfy the predicate, in visit
    order -/
theorem filter_eq {σ} (ast : AidlFile) (filter : SymbolFilter) (p : σ → Symbol → σ × Bool) (s : σ) :
    filterSymbols ast filter p s = filterStateful p s (symbols filter ast) := by
  unfold filterSymbols
  simp only
  rw [walkSymbols_eq]
  generalize symbols filter ast = l
  have : ∀ (acc : List Symbol) (s : σ),
      l.foldl (fun (st : σ × List Symbol) smb =>
        let (s', b) := p st.1 smb
        (s', if b then st.2 ++ [smb] else st.2)) (s, acc)
      = ((filterStateful p s l).1, acc ++ (filterStateful p s l).2) := by
    induction l with
    | nil => intro acc s; simp [filterStateful]
    | cons x xs ih =>
      intro acc s
      simp only [List.foldl_cons, filterStateful]
      rcases hp : p s x with ⟨s', b⟩
      simp only
      rw [ih]
      cases b <;> simp
  have h := this [] s
  simp only [List.nil_append] at h
  rw [h]

/-- pure predicates: `find_symbol` is `List.find?` on the visit list -/
theorem find_pure (ast : AidlFile) (filter : SymbolFilter) (p : Symbol → Bool) :
    (findSymbol ast filter (fun (_ : Unit) smb => ((), p smb)) ()).2 = (symbols filter ast).find? p := by
  rw [find_eq]
  generalize symbols filter ast = l
  induction l with
  | nil => rfl
  | cons x xs ih =>
    simp only [findStateful, List.find?_cons]
    cases p x <;> simp [ih]

/-- pure predicates: `filter_symbols` is `List.filter` on the visit list -/
theorem filter_pure (ast : AidlFile) (filter : SymbolFilter) (p : Symbol → Bool) :
    (filterSymbols ast filter (fun (_ : Unit) smb => ((), p smb)) ()).2 = (symbols filter ast).filter p := by
  rw [filter_eq]
  generalize symbols filter ast = l
  induction l with
  | nil => rfl
  | cons x xs ih =>
    simp only [filterStateful, List.filter_cons]
    cases p x <;> simp [ih]

/-! ### the levels -/

theorem level_items (ast : AidlFile) : (symbols .itemsOnly ast).length = 1 := by
  unfold symbols itemSymbols
  cases ast.item <;> simp

theorem flatMap_sublist {α β} (l : List α) (f g : α → List β) (h : ∀ x, (f x).Sublist (g x)) :
    (l.flatMap f).Sublist (l.flatMap g) := by
  induction l with
  | nil => simp
  | cons x xs ih => simp only [List.flatMap_cons]; exact List.Sublist.append (h x) ih

/-- the coarser levels are sub-sequences of the detailed one -/
theorem level_sublist (ast : AidlFile) :
    (symbols .itemsOnly ast).Sublist (symbols .itemsAndItemElements ast)
    ∧ (symbols .itemsAndItemElements ast).Sublist (symbols .all ast) := by
  unfold symbols itemSymbols
  constructor
  · cases ast.item <;> simp
  · simp only [SymbolFilter.noConfusion, reduceCtorEq, if_false, if_true, List.nil_append]
    apply List.Sublist.trans _ (List.sublist_append_right _ _)
    cases ast.item with
    | interface i =>
      simp only [reduceCtorEq, if_false]
      apply List.Sublist.cons_cons
      apply flatMap_sublist
      intro el
      cases el with
      | method m => simp [interfaceElementSymbols, methodSymbols]
      | const c => simp [interfaceElementSymbols, constSymbols]
    | parcelable p =>
      simp only [reduceCtorEq, if_false]
      apply List.Sublist.cons_cons
      apply flatMap_sublist
      intro el
      cases el with
      | field fi => simp [parcelableElementSymbols, fieldSymbols]
      | const c => simp [parcelableElementSymbols, constSymbols]
    | enum e => simp

/-! ### the other walkers -/

/-- `walk_types` yields every type node at any depth, in source order (array element first) -/
theorem walk_types_eq {σ} (ast : AidlFile) (g : σ → Ty → σ) (s : σ) :
    walkTypes ast g s = (allTypesWalk ast).foldl g s := walkTypes_eq ast g s

/-- `walk_methods` yields every method in source order -/
theorem walk_methods_eq {σ} (ast : AidlFile) (g : σ → Method → σ) (s : σ) :
    walkMethods ast g s = (methodsOf ast).foldl g s := walkMethods_eq_foldl ast g s

/-- `walk_args` yields every argument of every method in source order -/
theorem walk_args_eq {σ} (ast : AidlFile) (g : σ → Method → Arg → σ) (s : σ) :
    walkArgs ast g s = (allArgs ast).foldl (fun s p => g s p.1 p.2) s := by
  unfold walkArgs allArgs methodsOf
  cases ast.item with
  | interface i =>
    simp only [Interface.methods]
    generalize i.elements = els
    induction els generalizing s with
    | nil => rfl
    | cons el els ih =>
      cases el with
      | const c => simpa [List.filterMap_cons] using ih s
      | method m =>
        simp only [List.foldl_cons, List.filterMap_cons, List.flatMap_cons, List.foldl_append, ih]
        congr 1
        generalize m.args = as
        induction as generalizing s with
        | nil => rfl
        | cons a as iha => simp [iha]
  | parcelable p => rfl
  | enum e => rfl

/-- the type symbols of the detailed level are exactly all type nodes, once each, in walk order -/
theorem all_types_once (ast : AidlFile) :
    (symbols .all ast).filterMap (fun s => match s with | .type t => some t | _ => none) = allTypesWalk ast := by
  unfold symbols itemSymbols allTypesWalk topTypes
  have ht : ∀ t : Ty, (typeSymbols t).filterMap (fun s => match s with | .type t => some t | _ => none) = Ty.walkOrder t := by
    intro t; unfold typeSymbols; rw [List.filterMap_map]; simp [Function.comp_def]
  simp only [if_true, List.filterMap_append, List.filterMap_cons, List.filterMap_map]
  have hi : (ast.imports.filterMap ((fun s => match s with | Symbol.type t => some t | _ => none) ∘ Symbol.import_)) = [] := by
    simp [Function.comp_def]
  rw [hi]
  cases ast.item with
  | interface i =>
    simp only [reduceCtorEq, if_false, List.filterMap_cons, List.nil_append, List.filterMap_flatMap,
      List.flatMap_assoc]
    congr 1
    funext el
    cases el with
    | const c => simp [interfaceElementSymbols, constSymbols, InterfaceElement.topTypes, ht]
    | method m =>
      simp only [interfaceElementSymbols, methodSymbols, if_true, List.filterMap_cons, List.filterMap_append, ht,
        InterfaceElement.topTypes, Method.topTypes, List.flatMap_cons, List.filterMap_flatMap, List.flatMap_map]
      congr 1
      simp [argSymbols, ht]
  | parcelable p =>
    simp only [reduceCtorEq, if_false, List.filterMap_cons, List.nil_append, List.filterMap_flatMap,
      List.flatMap_assoc]
    congr 1
    funext el
    cases el with
    | const c => simp [parcelableElementSymbols, constSymbols, ParcelableElement.topTypes, ht]
    | field fi => simp [parcelableElementSymbols, fieldSymbols, ParcelableElement.topTypes, ht]
  | enum e => simp [Function.comp_def]

end Aidl.Props.C15
