import AidlVerif.Props.LrComplete

/-!
# The driver follows the automaton: a derivable token sequence is accepted, without error recovery

`GoodCfg` (from `LrComplete.derives_good`) says that the automaton of the tables accepts from the
current state stack and remaining tokens. The model of `lalrpop_util`'s driver makes the same moves
(it reads the same ACTION entries), so it never meets an empty entry: it never enters
`error_recovery`, never reports a parse error, and ends by accepting — unless it stops (a panic or
the step bound, excluded by `addContent_total`).
-/

namespace Aidl.Props.LrComplete
open Aidl Aidl.Lr Aidl.Actions Aidl.Lexer Aidl.Props.LrSound

variable (T : Tables) (env : Env)

/-- the remaining input lexes to tokens with these ACTION columns, then ends -/
inductive LexCols : List Char → Nat → List Nat → Prop
  | eof {i : List Char} {p : Nat} : Lexer.next T.lex (i.length + 1) i p = .eof → LexCols i p []
  | tok {i : List Char} {p : Nat} {t : Token} {r : List Char} {c : Nat} {w : List Nat} :
      Lexer.next T.lex (i.length + 1) i p = .token t r → T.tokToCol.lookup t.index = some c →
      LexCols r t.stop w → LexCols i p (c :: w)

/-- a panic or the step bound -/
def Stops : Outcome → Prop
  | .accept _ => False
  | .error _ => False
  | _ => True

theorem reduceCore_cases (s : St) (p : Nat) (prod : Production) (hp : T.prods[p]? = some prod) (la : Option Nat) :
    match reduceCore T env s prod la with
    | (s', none) => ∃ prod, T.prods[p]? = some prod ∧ prod.accept = false
        ∧ s'.states = gotoOf T ((s.states.drop prod.pops).headD 0) prod.nt :: s.states.drop prod.pops
        ∧ s'.input = s.input ∧ s'.pos = s.pos ∧ s'.recovered = s.recovered
    | (s', some o) => Stops o ∨ (∃ v prod, o = .accept v ∧ T.prods[p]? = some prod ∧ prod.accept = true
        ∧ s'.recovered = s.recovered) := by
  unfold reduceCore
  dsimp only
  cases (ReaderT.run (evalAction T.actions 16 prod.action _) env).run s.diags with
  | error e => exact Or.inl trivial
  | ok r =>
    obtain ⟨v, ds⟩ := r
    dsimp only
    unfold reducePush
    dsimp only
    by_cases hacc : prod.accept = true
    · rw [if_pos hacc]
      exact Or.inr ⟨v, prod, rfl, hp, hacc, rfl⟩
    · rw [if_neg hacc]
      by_cases hlt : s.states.length < prod.pops + 1
      · rw [if_pos hlt]; exact Or.inl trivial
      · rw [if_neg hlt]
        exact ⟨prod, hp, by simpa using hacc, rfl, rfl, rfl, rfl⟩

theorem reduce_cases (s : St) (p : Nat) (la : Option Nat) :
    match reduce T env s p la with
    | (s', none) => ∃ prod, T.prods[p]? = some prod ∧ prod.accept = false
        ∧ s'.states = gotoOf T ((s.states.drop prod.pops).headD 0) prod.nt :: s.states.drop prod.pops
        ∧ s'.input = s.input ∧ s'.pos = s.pos ∧ s'.recovered = s.recovered
    | (s', some o) => Stops o ∨ (∃ v prod, o = .accept v ∧ T.prods[p]? = some prod ∧ prod.accept = true
        ∧ s'.recovered = s.recovered) := by
  unfold reduce
  cases hp : T.prods[p]? with
  | none => exact Or.inl trivial
  | some prod =>
    dsimp only
    by_cases h1 : s.syms.length < prod.rhs.length
    · rw [if_pos h1]; exact Or.inl trivial
    · rw [if_neg h1]
      by_cases h2 : (((s.syms.take prod.rhs.length).reverse).map (·.id) != prod.rhsIds) = true
      · rw [if_pos h2]; exact Or.inl trivial
      · rw [if_neg h2]
        have := reduceCore_cases T env s p prod hp la
        rw [hp] at this
        exact this

theorem asShift_none_of_reduce {a : Int} {p : Nat} (h : asReduce a = some p) : asShift a = none := by
  unfold asReduce at h
  unfold asShift
  split at h
  · rename_i hlt
    have : ¬ a > 0 := by omega
    simp [this]
  · cases h

theorem parseInner_good : ∀ (fuel : Nat) (s : St) (la : Token) (c : Nat) (w : List Nat), GoodCfg T s.states (c :: w) →
    match parseInner T env s la c fuel with
    | (s', .inl ()) => GoodCfg T s'.states w ∧ s'.input = s.input ∧ s'.pos = s.pos ∧ s'.recovered = s.recovered
    | (_, .inr o) => Stops o := by
  intro fuel
  induction fuel with
  | zero => intro s la c w _; unfold parseInner; trivial
  | succ f ih =>
    intro s la c w h
    unfold parseInner
    dsimp only
    generalize hst : s.states = st at h
    cases h with
    | shift hs K =>
      rename_i q σ t
      have htop : topState s = q := by unfold topState; rw [hst]; rfl
      rw [htop, hs]
      dsimp only
      exact ⟨K, rfl, rfl, rfl⟩
    | red hr hp hacc K =>
      rename_i q σ p prod
      have htop : topState s = q := by unfold topState; rw [hst]; rfl
      simp only [List.head?_cons, laAction] at hr
      rw [htop, asShift_none_of_reduce hr, hr]
      dsimp only
      have hc := reduce_cases T env s p (some la.start)
      revert hc
      cases reduce T env s p (some la.start) with
      | mk s' oo =>
        cases oo with
        | none =>
          rintro ⟨prod', hp', _, hst', hin, hpos, hrec⟩
          dsimp only
          rw [hp] at hp'
          cases hp'
          rw [hst] at hst'
          have := ih s' la c w (by rw [hst']; exact K)
          revert this
          cases parseInner T env s' la c f with
          | mk s'' r =>
            cases r with
            | inl u => cases u; intro hh; exact ⟨hh.1, by rw [hh.2.1, hin], by rw [hh.2.2.1, hpos], by rw [hh.2.2.2, hrec]⟩
            | inr o => exact fun hh => hh
        | some o =>
          intro hh
          rcases hh with hstop | ⟨v, prod', _, hp', hacc', _⟩
          · cases o <;> first | exact hstop.elim | (dsimp only; trivial)
          · rw [hp] at hp'; cases hp'; rw [hacc] at hacc'; cases hacc'

/-- how a run over a derivable rest ends: stopped, or accepted with the recovery flag untouched -/
def AccOrStop (rec0 : Bool) (r : St × Outcome) : Prop :=
  Stops r.2 ∨ (∃ v, r.2 = .accept v ∧ r.1.recovered = rec0)

theorem parseEof_good : ∀ (fuel : Nat) (s : St), GoodCfg T s.states [] → AccOrStop s.recovered (parseEof T env s fuel) := by
  intro fuel
  induction fuel with
  | zero => intro s _; unfold parseEof; exact Or.inl trivial
  | succ f ih =>
    intro s h
    unfold parseEof
    generalize hst : s.states = st at h
    have key : ∀ (q : Nat) (σ : List Nat) (p : Nat) (prod : Production), st = q :: σ →
        asReduce (eofActionAt T q) = some p → T.prods[p]? = some prod →
        (prod.accept = false → GoodCfg T (gotoOf T (((q :: σ).drop prod.pops).headD 0) prod.nt :: (q :: σ).drop prod.pops) []) →
        AccOrStop s.recovered
          (match asReduce (eofActionAt T (topState s)) with
          | some r =>
            match reduce T env s r none with
            | (s, some o) => (s, o)
            | (s, none) => parseEof T env s f
          | none =>
            match errorRecovery T env s none none f with
            | (s, .found _ _) => (s, .panic "cannot find token at EOF")
            | (s, .done o) => (s, o)
            | (s, .eof) => parseEof T env s f) := by
      intro q σ p prod hq hr hp K
      have htop : topState s = q := by unfold topState; rw [hst, hq]; rfl
      rw [htop, hr]
      dsimp only
      have hc := reduce_cases T env s p none
      revert hc
      cases reduce T env s p none with
      | mk s' oo =>
        cases oo with
        | none =>
          rintro ⟨prod', hp', hacc', hst', _, _, hrec⟩
          dsimp only
          rw [hp] at hp'
          cases hp'
          rw [hst, hq] at hst'
          have := ih s' (by rw [hst']; exact K hacc')
          rw [hrec] at this
          exact this
        | some o =>
          intro hh
          dsimp only
          rcases hh with hstop | ⟨v, prod', rfl, _, _, hrec⟩
          · exact Or.inl hstop
          · exact Or.inr ⟨v, rfl, hrec⟩
    cases h with
    | acc hr hp hacc =>
      exact key _ _ _ _ rfl hr hp (fun h => by rw [hacc] at h; cases h)
    | red hr hp hacc K =>
      simp only [List.head?_nil, laAction] at hr
      exact key _ _ _ _ rfl hr hp (fun _ => K)

theorem parseLoop_good : ∀ (fuel : Nat) (s : St) (w : List Nat), GoodCfg T s.states w → LexCols T s.input s.pos w →
    AccOrStop s.recovered (parseLoop T env s fuel) := by
  intro fuel
  induction fuel with
  | zero => intro s w _ _; unfold parseLoop; exact Or.inl trivial
  | succ f ih =>
    intro s w h hl
    unfold parseLoop nextToken
    cases hl with
    | eof hn =>
      rw [hn]
      exact parseEof_good T env f s h
    | tok hn hc hr =>
      rename_i t r c w'
      rw [hn]
      dsimp only
      rw [hc]
      dsimp only
      have hi := parseInner_good T env f { s with input := r, pos := t.stop, last := t.stop } t c w' h
      revert hi
      cases parseInner T env { s with input := r, pos := t.stop, last := t.stop } t c f with
      | mk s' x =>
        cases x with
        | inr o => intro hh; exact Or.inl hh
        | inl u =>
          cases u
          rintro ⟨hg, hin, hpos, hrec⟩
          dsimp only
          have := ih s' w' hg (by rw [hin, hpos]; exact hr)
          rw [hrec] at this
          exact this

/-- **Completeness, generic over the tables**: if the text lexes to a token sequence that is derivable
    from the accepting production, the run of the parser either stops (panic / step bound) or accepts
    — and error recovery never runs. -/
theorem parse_complete_gen (I : Items) (F : ItemFacts T I) (text : List Char) (w : List Nat) (fuel : Nat)
    (hl : LexCols T text 0 w) (hd : Derives T w) :
    AccOrStop false (parseLoop T env { input := text } fuel) :=
  parseLoop_good T env fuel { input := text } w (derives_good T I F w hd) hl

end Aidl.Props.LrComplete
