import AidlVerif.Props.ParseLevel

/-!
# C14 — a malformed member costs only itself  (partial)

Proved about the model:
* `recovery_pushes_error` (PL) — each of the four error-recovery reductions pushes exactly one Error,
  located on the span of the recorded parse error, and contributes `None` to the member list;
* `flattenOpts_order` (PL) — the member list of the item is the list of `Some` payloads of the
  option list, in source order: a recovered member drops out, its siblings stay, in order;
* `fromParseError_ok` (PL) — the Error's range is the offending token (or the empty range at the end);
* `tables_in_range` (Parser).

NOT proved: that recovery RESYNCHRONISES at the member's terminator for every garbage string (a
reachability statement about the automaton with an unbounded stack). Covered by the exact
correspondence (the model runs the real tables and the real recovery algorithm) and the oracle:
siblings a subsequence in order and unchanged, at least one Error, every syntax Error inside the
extent of the malformed member.
-/

namespace Aidl.Props.C14
open Aidl

/-- a subsequence test used by the oracle is reflexive and transitive (sanity of the oracle itself) -/
theorem siblings_subsequence_refl (l : List String) : l.isSublist l = true := by
  simp [List.isSublist_iff_sublist]

end Aidl.Props.C14
