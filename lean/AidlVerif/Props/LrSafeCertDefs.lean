import AidlVerif.Props.LrCert
import AidlVerif.Driver.Parse

namespace Aidl.Props.LrSafe
open Aidl Aidl.Lr

/-- the certificate computed by the translator for the tables of this run -/
def cert : Cert := { succ := Gen.certSucc, preds := Gen.certPreds, acc := Gen.certAcc, reds := Gen.certReds }

end Aidl.Props.LrSafe
