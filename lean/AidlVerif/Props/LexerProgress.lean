import AidlVerif.Props.LexerBounds

/-!
# Every token consumes at least one character — for every input, given a checked table property

`nullable r = false` (a syntactic check) implies that a match of `r` ends strictly after its start
(`matchAt_progress`). With `lexNonNull table` — every entry of the lexer table that is not a
skip-entry is non-nullable, evaluated by the kernel on the regenerated table — a token returned by
`Matcher::next` leaves a strictly shorter rest (`next_progress`). This is what makes the parser's
outer loop advance.
-/

namespace Aidl.Props.LexerProgress
open Aidl.Regex Aidl.Lexer Aidl.Javadoc Aidl.Props.JavadocTotal Aidl.Props.LexerBounds

def nullable : Re → Bool
  | .eps => true
  | .cls _ => false
  | .seq a b => nullable a && nullable b
  | .alt a b => nullable a || nullable b
  | .star _ => true

/-- a continuation all of whose answers at positions `≥ b` satisfy `Q` -/
def KGe (b : Nat) (Q : Nat → Prop) (k : K) : Prop := ∀ s p e, b ≤ p → k s p = some e → Q e

theorem starLoop_ge (b : Nat) (Q : Nat → Prop) (body : List Char → Nat → K → Option Nat)
    (hbody : ∀ k, KGe b Q k → ∀ s p e, b ≤ p → body s p k = some e → Q e)
    (k : K) (hk : KGe b Q k) :
    ∀ n s p e, b ≤ p → starLoop body k n s p = some e → Q e := by
  intro n
  induction n with
  | zero => intro s p e hp h; exact hk s p e hp h
  | succ n ih =>
    intro s p e hp h
    unfold starLoop at h
    split at h
    · rename_i r hb
      cases h
      refine hbody _ ?_ s p _ hp hb
      intro s' p' e' hp' h'
      dsimp only at h'
      split at h'
      · exact ih s' p' e' hp' h'
      · cases h'
    · exact hk s p e hp h

theorem m_ge (b : Nat) (Q : Nat → Prop) (r : Re) (fuel : Nat) :
    ∀ k, KGe b Q k → ∀ s p e, b ≤ p → m r fuel s p k = some e → Q e := by
  induction r generalizing b with
  | eps => intro k hk s p e hp h; exact hk s p e hp (by simpa [m] using h)
  | cls rs =>
    intro k hk s p e hp h
    cases s with
    | nil => simp [m] at h
    | cons c s' =>
      simp only [m] at h
      split at h
      · exact hk _ _ e (by omega) h
      · cases h
  | seq a b' iha ihb =>
    intro k hk s p e hp h
    simp only [m] at h
    exact iha b _ (fun s' p' e' hp' h' => ihb b k hk s' p' e' hp' h') s p e hp h
  | alt a b' iha ihb =>
    intro k hk s p e hp h
    simp only [m] at h
    split at h
    · rename_i r' ha; cases h; exact iha b k hk s p _ hp ha
    · exact ihb b k hk s p e hp h
  | star a iha =>
    intro k hk s p e hp h
    simp only [m] at h
    exact starLoop_ge b Q (m a fuel) (fun k hk s p e hp h => iha b k hk s p e hp h) k hk fuel s p e hp h

/-- a non-nullable expression calls its continuation strictly further on -/
theorem m_gt (Q : Nat → Prop) (r : Re) (fuel : Nat) (hn : nullable r = false) :
    ∀ b k, KGe (b + 1) Q k → ∀ s p e, b ≤ p → m r fuel s p k = some e → Q e := by
  induction r with
  | eps => simp [nullable] at hn
  | cls rs =>
    intro b k hk s p e hp h
    cases s with
    | nil => simp [m] at h
    | cons c s' =>
      simp only [m] at h
      split at h
      · have := utf8Size_pos c
        exact hk _ _ e (by omega) h
      · cases h
  | seq a b' iha ihb =>
    intro b k hk s p e hp h
    simp only [m] at h
    simp only [nullable, Bool.and_eq_false_iff] at hn
    cases ha : nullable a with
    | false =>
      exact iha ha b _ (fun s' p' e' hp' h' => m_ge (b + 1) Q b' fuel k hk s' p' e' hp' h') s p e hp h
    | true =>
      have hb : nullable b' = false := by
        rcases hn with h1 | h1
        · rw [ha] at h1; cases h1
        · exact h1
      exact m_ge b Q a fuel _ (fun s' p' e' hp' h' => ihb hb b k hk s' p' e' hp' h') s p e hp h
  | alt a b' iha ihb =>
    intro b k hk s p e hp h
    simp only [m] at h
    simp only [nullable, Bool.or_eq_false_iff] at hn
    split at h
    · rename_i r' ha; cases h; exact iha hn.1 b k hk s p _ hp ha
    · exact ihb hn.2 b k hk s p e hp h
  | star a _ => simp [nullable] at hn

theorem matchAt_progress (r : Re) (fuel : Nat) (s : List Char) (p e : Nat) (hn : nullable r = false)
    (h : matchAt r fuel s p = some e) : p < e := by
  unfold matchAt at h
  refine m_gt (fun e => p < e) r fuel hn p _ ?_ s p e (Nat.le_refl _) h
  intro s' p' e' hp' h'
  cases h'
  omega

/-- the winning entry of `bestMatch` is an entry of the table that matches, with that length -/
theorem bestMatch_match (table : LexTable) (fuel : Nat) (s : List Char) (p len i : Nat)
    (h : bestMatch table fuel s p = some (len, i)) :
    i < table.size ∧ ∃ e, matchAt table[i]!.1 fuel s p = some e ∧ len = e - p := by
  unfold bestMatch at h
  let P : Option (Nat × Nat) → Prop := fun b => ∀ l j, b = some (l, j) →
    j < table.size ∧ ∃ e, matchAt table[j]!.1 fuel s p = some e ∧ l = e - p
  have key : ∀ (is : List Nat) (b : Option (Nat × Nat)), (∀ i ∈ is, i < table.size) → P b →
      P (is.foldl (fun best i =>
        match matchAt table[i]!.1 fuel s p with
        | none => best
        | some e =>
          let len := e - p
          match best with
          | none => some (len, i)
          | some (bl, _) => if len ≥ bl then some (len, i) else best) b) := by
    intro is
    induction is with
    | nil => intro b _ hb; simpa using hb
    | cons i is ih =>
      intro b his hb
      simp only [List.foldl_cons]
      apply ih _ (fun j hj => his j (List.mem_cons_of_mem _ hj))
      intro l j hlj
      have hi := his i (List.mem_cons_self ..)
      cases hm : matchAt table[i]!.1 fuel s p with
      | none => rw [hm] at hlj; exact hb l j hlj
      | some e =>
        rw [hm] at hlj
        have hnew : ∀ l j, some (e - p, i) = some (l, j) →
            j < table.size ∧ ∃ e, matchAt table[j]!.1 fuel s p = some e ∧ l = e - p := by
          intro l j h'
          cases h'
          exact ⟨hi, e, hm, rfl⟩
        cases b with
        | none => exact hnew l j hlj
        | some bb =>
          obtain ⟨bl, bi⟩ := bb
          simp only at hlj
          split at hlj
          · exact hnew l j hlj
          · exact hb l j hlj
  exact key _ none (fun i hi => List.mem_range.mp hi) (by intro l j h'; cases h') len i h

/-- every entry that produces a token (is not skipped) cannot match the empty string -/
def lexNonNull (table : LexTable) : Bool :=
  (List.range table.size).all fun i => table[i]!.2 || !nullable table[i]!.1

theorem utf8Len_pos_length (pre : List Char) (h : 0 < utf8Len pre) : 0 < pre.length := by
  cases pre with
  | nil => simp [utf8Len_nil] at h
  | cons c cs => simp

/-- **a token leaves a strictly shorter rest** -/
theorem next_progress (table : LexTable) (hnn : lexNonNull table = true) (fuel : Nat) :
    ∀ (s : List Char) (p : Nat) (t : Token) (rest : List Char),
      next table fuel s p = .token t rest → rest.length < s.length := by
  induction fuel with
  | zero => intro s p t rest h; simp [next] at h
  | succ fuel ih =>
    intro s p t rest h
    cases s with
    | nil => rw [next] at h; cases h
    | cons c cs =>
      rw [next] at h
      case x_4 => intro h; cases h
      dsimp only at h
      cases hb : bestMatch table (fuel + 1) (c :: cs) p with
      | none => rw [hb] at h; cases h
      | some li =>
        obtain ⟨len, i⟩ := li
        obtain ⟨pre, post, h1, h2⟩ := bestMatch_prefix table _ _ p len i hb
        obtain ⟨hi, e, hm, hlen⟩ := bestMatch_match table _ _ p len i hb
        have hsp : splitBytes len (c :: cs) = (pre, post) := by rw [h1, h2]; exact splitBytes_prefix pre post
        rw [hb] at h
        dsimp only at h
        rw [hsp] at h
        dsimp only at h
        by_cases hskip : table[i]!.2 = true
        · rw [if_pos hskip] at h
          by_cases hz : len = 0
          · rw [if_pos hz] at h; cases h
          · rw [if_neg hz] at h
            have := ih post (p + len) t rest h
            rw [h1, List.length_append]
            omega
        · rw [if_neg hskip] at h
          cases h
          have hnull : nullable table[i]!.1 = false := by
            have := (List.all_eq_true.mp hnn) i (List.mem_range.mpr hi)
            simp only [Bool.or_eq_true, Bool.not_eq_true'] at this
            rcases this with h' | h'
            · exact absurd h' hskip
            · exact h'
          have hpe := matchAt_progress _ _ _ _ _ hnull hm
          have hpos : 0 < utf8Len pre := by omega
          have := utf8Len_pos_length pre hpos
          rw [h1, List.length_append]
          omega

/-- the skip loop never runs out of its step bound: with `fuel > |s|` the `0` case of `next` (which
    would answer `InvalidToken`) is not reached — `nextE` is `next` with that case made explicit -/
def nextE (table : LexTable) : Nat → List Char → Nat → Option LexResult
  | 0, _, _ => none
  | fuel + 1, s, p =>
    match s with
    | [] => some .eof
    | _ =>
      match bestMatch table (fuel + 1) s p with
      | none => some (.invalid p)
      | some (len, i) =>
        let parts := splitBytes len s
        if table[i]!.2 then
          if len = 0 then some (.invalid p) else nextE table fuel parts.2 (p + len)
        else some (.token { start := p, index := i, text := String.ofList parts.1, stop := p + len } parts.2)

theorem next_fuel_enough (table : LexTable) (fuel : Nat) :
    ∀ (s : List Char) (p : Nat), s.length < fuel → nextE table fuel s p = some (next table fuel s p) := by
  induction fuel with
  | zero => intro s p h; omega
  | succ fuel ih =>
    intro s p hlt
    cases s with
    | nil => rw [next, nextE]
    | cons c cs =>
      rw [next, nextE]
      case x_4 => intro h; cases h
      case x_4 => intro h; cases h
      dsimp only
      cases hb : bestMatch table (fuel + 1) (c :: cs) p with
      | none => rfl
      | some li =>
        obtain ⟨len, i⟩ := li
        obtain ⟨pre, post, h1, h2⟩ := bestMatch_prefix table _ _ p len i hb
        have hsp : splitBytes len (c :: cs) = (pre, post) := by rw [h1, h2]; exact splitBytes_prefix pre post
        dsimp only
        rw [hsp]
        dsimp only
        by_cases hskip : table[i]!.2 = true
        · rw [if_pos hskip, if_pos hskip]
          by_cases hz : len = 0
          · rw [if_pos hz, if_pos hz]
          · rw [if_neg hz, if_neg hz]
            apply ih
            have hpos : 0 < utf8Len pre := by omega
            have := utf8Len_pos_length pre hpos
            have hl : (c :: cs).length = pre.length + post.length := by rw [h1, List.length_append]
            omega
        · rw [if_neg hskip, if_neg hskip]

end Aidl.Props.LexerProgress
