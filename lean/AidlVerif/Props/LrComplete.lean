import AidlVerif.Props.LrSound

/-!
# Completeness of the LR tables with respect to the grammar of the generated parser

The translator reconstructs, for the regenerated tables, the LR(1) items of every state (production,
dot, lookahead set as a bit mask), `nullable` and `FIRST`. NOTHING of it is trusted: `Items.ok` checks
the conditions of Jourdan, Pottier and Leroy's validator ("Validating LR(1) parsers", ESOP 2012) —
the start item is in state 0; items are closed under the productions of the symbol after the dot
(with `FIRST` of what follows); the transition on the symbol after the dot exists and leads to a
state holding the advanced item; a complete item reduces on every lookahead of its set — and the
kernel evaluates it on the tables of this run. From it: `derives_good` — for every token sequence
derivable from the accepting production, the automaton of the tables reads it to the end and
accepts, without ever meeting an empty ACTION entry.
-/

namespace Aidl.Props.LrComplete
open Aidl Aidl.Lr Aidl.Actions Aidl.Lexer Aidl.Props.LrSound

structure Items where
  items : Nat → List (Nat × Nat × Nat)         -- state ↦ (production, dot, lookahead mask; bit ncols = end of input)
  actRow : Nat → List (Nat × Int)              -- state ↦ non-zero ACTION entries
  eofAct : Nat → Int
  nullable : Nat → Bool                        -- symbol id ↦
  first : Nat → Nat                            -- symbol id ↦ mask of terminal columns
  info : Nat → Option (List Nat × Nat × Bool)  -- production ↦ (rhs ids, non-terminal, accept)
  prodsOf : Nat → List Nat                     -- non-terminal index ↦ its (non-accepting) productions
  nstates : Nat

variable (T : Tables) (I : Items)

/-- accessors clamped to the certified range: beyond `nstates` there is nothing -/
def itemsOf (q : Nat) : List (Nat × Nat × Nat) := if q < I.nstates then I.items q else []
def act (q c : Nat) : Int := if q < I.nstates then ((I.actRow q).lookup c).getD 0 else 0
def eofOf (q : Nat) : Int := if q < I.nstates then I.eofAct q else 0

/-- the action on lookahead index `a` (`ncols` = end of input) -/
def laAct (q a : Nat) : Int := if a = T.ncols then eofOf I q else act I q a

def subMask (a b : Nat) : Bool := Nat.land a b == a

def lookupItem (l : List (Nat × Nat × Nat)) (p dot : Nat) : Nat :=
  match l.find? (fun e => e.1 == p && e.2.1 == dot) with
  | some e => e.2.2
  | none => 0

def firstSeq : List Nat → Nat → Nat
  | [], am => am
  | x :: xs, am => if I.nullable x then Nat.lor (I.first x) (firstSeq xs am) else I.first x

def delta (q X : Nat) : Option Nat :=
  if X < T.ncols then asShift (act I q X) else some (gotoOf T q (X - T.ncols))

def itemOK (q : Nat) (e : Nat × Nat × Nat) : Bool :=
  match I.info e.1 with
  | none => false
  | some (ids, _, _) =>
    match ids[e.2.1]? with
    | some X =>
      (match delta T I q X with
       | some q' => subMask e.2.2 (lookupItem (itemsOf I q') e.1 (e.2.1 + 1))
       | none => false)
      && (decide (X < T.ncols) || (I.prodsOf (X - T.ncols)).all fun p' =>
            subMask (firstSeq I (ids.drop (e.2.1 + 1)) e.2.2) (lookupItem (itemsOf I q) p' 0))
    | none =>
      e.2.1 == ids.length && (List.range (T.ncols + 1)).all fun a =>
        !(Nat.testBit e.2.2 a) || asReduce (laAct T I q a) == some e.1

def itemsOK : Bool := (List.range I.nstates).all fun q => (I.items q).all (itemOK T I q)

def actRowOK : Bool := (List.range I.nstates).all fun q => (I.actRow q).all fun ca => actionAt T q ca.1 == ca.2
def eofOK : Bool := (List.range I.nstates).all fun q => I.eofAct q == 0 || eofActionAt T q == I.eofAct q

def prodsOK : Bool :=
  T.prods.toList.zipIdx.all fun pi =>
    I.info pi.2 == some (pi.1.rhsIds, pi.1.nt, pi.1.accept)
      && pi.1.pops == pi.1.rhsIds.length
      && (pi.1.accept || (I.prodsOf pi.1.nt).contains pi.2)
      && (pi.1.accept ||
            ((!(pi.1.rhsIds.all I.nullable) || I.nullable (T.ncols + pi.1.nt))
              && subMask (firstSeq I pi.1.rhsIds 0) (I.first (T.ncols + pi.1.nt))))
      && (!pi.1.accept || Nat.testBit (lookupItem (itemsOf I 0) pi.2 0) T.ncols)

def termsOK : Bool := (List.range T.ncols).all fun c => Nat.testBit (I.first c) c

def ok : Bool := itemsOK T I && actRowOK T I && eofOK T I && prodsOK T I && termsOK T I

/-! ### what the certificate gives -/

def HasItem (q p dot a : Nat) : Prop := Nat.testBit (lookupItem (itemsOf I q) p dot) a = true

structure ItemFacts : Prop where
  act : ∀ q c, act I q c ≠ 0 → actionAt T q c = act I q c
  eof : ∀ q, eofOf I q ≠ 0 → eofActionAt T q = eofOf I q
  prod : ∀ p prod, T.prods[p]? = some prod →
    I.info p = some (prod.rhsIds, prod.nt, prod.accept) ∧ prod.pops = prod.rhsIds.length
      ∧ (prod.accept = false → p ∈ I.prodsOf prod.nt
          ∧ (prod.rhsIds.all I.nullable = true → I.nullable (T.ncols + prod.nt) = true)
          ∧ subMask (firstSeq I prod.rhsIds 0) (I.first (T.ncols + prod.nt)) = true)
      ∧ (prod.accept = true → HasItem I 0 p 0 T.ncols)
  term : ∀ c, c < T.ncols → Nat.testBit (I.first c) c = true
  item : ∀ q p dot a, HasItem I q p dot a →
    ∃ m, Nat.testBit m a = true ∧ lookupItem (itemsOf I q) p dot = m ∧ itemOK T I q (p, dot, m) = true

theorem lookup_mem_int {l : List (Nat × Int)} {k : Nat} {v : Int} (h : l.lookup k = some v) : (k, v) ∈ l := by
  induction l with
  | nil => cases h
  | cons x xs ih =>
    obtain ⟨k', v'⟩ := x
    simp only [List.lookup] at h
    split at h
    · rename_i heq
      have : k = k' := by simpa using heq
      cases h; subst this; exact List.mem_cons_self ..
    · exact List.mem_cons_of_mem _ (ih h)

theorem lookupItem_mem {l : List (Nat × Nat × Nat)} {p dot a : Nat} (h : Nat.testBit (lookupItem l p dot) a = true) :
    (p, dot, lookupItem l p dot) ∈ l := by
  unfold lookupItem at h ⊢
  cases hf : l.find? (fun e => e.1 == p && e.2.1 == dot) with
  | none => rw [hf] at h; simp at h
  | some e =>
    obtain ⟨p', dot', m⟩ := e
    have hm := List.mem_of_find?_eq_some hf
    have hp := List.find?_some hf
    simp only [Bool.and_eq_true, beq_iff_eq] at hp
    obtain ⟨rfl, rfl⟩ := hp
    exact hm

theorem itemFacts (h : ok T I = true) : ItemFacts T I := by
  unfold ok at h
  simp only [Bool.and_eq_true] at h
  obtain ⟨⟨⟨⟨hitems, hact⟩, heof⟩, hprods⟩, hterms⟩ := h
  refine ⟨?_, ?_, ?_, ?_, ?_⟩
  · intro q c hne
    unfold LrComplete.act at hne ⊢
    by_cases hq : q < I.nstates
    · rw [if_pos hq] at hne ⊢
      unfold actRowOK at hact
      have hrow := (List.all_eq_true.mp hact) q (List.mem_range.mpr hq)
      cases hl : (I.actRow q).lookup c with
      | none => rw [hl] at hne; exact absurd rfl hne
      | some a =>
        have hmem : (c, a) ∈ I.actRow q := lookup_mem_int hl
        have := (List.all_eq_true.mp hrow) (c, a) hmem
        simpa using this
    · rw [if_neg hq] at hne; exact absurd rfl hne
  · intro q hne
    unfold eofOf at hne ⊢
    by_cases hq : q < I.nstates
    · rw [if_pos hq] at hne ⊢
      unfold eofOK at heof
      have := (List.all_eq_true.mp heof) q (List.mem_range.mpr hq)
      simp only [Bool.or_eq_true, beq_iff_eq] at this
      rcases this with h0 | h1
      · exact absurd h0 hne
      · exact h1
    · rw [if_neg hq] at hne; exact absurd rfl hne
  · intro p prod hp
    have hmem : (prod, p) ∈ T.prods.toList.zipIdx :=
      List.mk_mem_zipIdx_iff_getElem?.mpr (by rw [Array.getElem?_toList]; exact hp)
    unfold prodsOK at hprods
    have := (List.all_eq_true.mp hprods) (prod, p) hmem
    simp only [Bool.and_eq_true, beq_iff_eq, Bool.or_eq_true, Bool.not_eq_true', List.contains_eq_mem,
      decide_eq_true_eq] at this
    obtain ⟨⟨⟨⟨h1, h2⟩, h3⟩, h4⟩, h5⟩ := this
    refine ⟨h1, h2, ?_, ?_⟩
    · intro hacc
      rw [hacc] at h3 h4
      simp only [Bool.false_eq_true, false_or] at h3 h4
      refine ⟨h3, ?_, h4.2⟩
      intro hn
      rcases h4.1 with h' | h'
      · rw [hn] at h'; cases h'
      · exact h'
    · intro hacc
      rw [hacc] at h5
      simpa [HasItem] using h5
  · intro c hc
    unfold termsOK at hterms
    exact (List.all_eq_true.mp hterms) c (List.mem_range.mpr hc)
  · intro q p dot a ha
    unfold HasItem at ha
    have hmem := lookupItem_mem ha
    refine ⟨_, ha, rfl, ?_⟩
    unfold itemsOf at hmem
    by_cases hq : q < I.nstates
    · rw [if_pos hq] at hmem
      unfold itemsOK at hitems
      have := (List.all_eq_true.mp hitems) q (List.mem_range.mpr hq)
      have h2 := (List.all_eq_true.mp this) _ hmem
      unfold itemsOf
      rw [if_pos hq]
      exact h2
    · rw [if_neg hq] at hmem; cases hmem

/-! ### `nullable` and `FIRST` are over-approximations of the grammar's -/

theorem subMask_bit {a b i : Nat} (h : subMask a b = true) (ha : Nat.testBit a i = true) : Nat.testBit b i = true := by
  unfold subMask at h
  have h' : a &&& b = a := by simpa using h
  have := Nat.testBit_and a b i
  rw [h', ha] at this
  simpa using this.symm

theorem firstSeq_nullable : ∀ (xs : List Nat) (am : Nat), xs.all I.nullable = true → firstSeq I xs am = firstSeq I xs am ∧
    ∀ i, Nat.testBit am i = true → Nat.testBit (firstSeq I xs am) i = true
  | [], am, _ => ⟨rfl, fun _ h => h⟩
  | x :: xs, am, h => by
    simp only [List.all_cons, Bool.and_eq_true] at h
    refine ⟨rfl, fun i hi => ?_⟩
    simp only [firstSeq, h.1, if_true]
    show Nat.testBit (I.first x ||| firstSeq I xs am) i = true
    rw [Nat.testBit_or]
    simp [(firstSeq_nullable xs am h.2).2 i hi]

theorem firstSeq_mono : ∀ (xs : List Nat) (am i : Nat), Nat.testBit (firstSeq I xs 0) i = true →
    Nat.testBit (firstSeq I xs am) i = true
  | [], am, i, h => by simp [firstSeq] at h
  | x :: xs, am, i, h => by
    simp only [firstSeq] at h ⊢
    split
    · rename_i hn
      rw [if_pos hn] at h
      change Nat.testBit (I.first x ||| firstSeq I xs 0) i = true at h
      show Nat.testBit (I.first x ||| firstSeq I xs am) i = true
      rw [Nat.testBit_or] at h ⊢
      rcases Bool.or_eq_true _ _ |>.mp h with h1 | h1
      · simp [h1]
      · simp [firstSeq_mono xs am i h1]
    · rename_i hn
      rw [if_neg hn] at h
      exact h

mutual
theorem first_yields (F : ItemFacts T I) : ∀ {X : Nat} {u : List Nat}, Yields T X u →
    (u = [] → I.nullable X = true) ∧ (∀ c rest, u = c :: rest → Nat.testBit (I.first X) c = true)
  | _, _, .term c hc => by
    refine ⟨fun h => (by cases h), fun c' rest h => ?_⟩
    cases h
    exact F.term c (by omega)
  | _, _, .prod p prod w hp hacc hs => by
    obtain ⟨_, _, hF, _⟩ := F.prod p prod hp
    obtain ⟨_, hnull, hfirst⟩ := hF hacc
    have ih := first_seq F hs
    refine ⟨fun hw => hnull (ih.1 hw), fun c rest hw => ?_⟩
    exact subMask_bit hfirst (ih.2 c rest hw 0)
theorem first_seq (F : ItemFacts T I) : ∀ {xs us : List Nat}, YieldsSeq T xs us →
    (us = [] → xs.all I.nullable = true) ∧ (∀ c rest, us = c :: rest → ∀ am, Nat.testBit (firstSeq I xs am) c = true)
  | _, _, .nil => by
    refine ⟨fun _ => rfl, fun c rest h => ?_⟩
    cases h
  | _, _, .cons x xs w ws hy hs => by
    have ih1 := first_yields F hy
    have ih2 := first_seq F hs
    refine ⟨fun h => ?_, fun c rest h am => ?_⟩
    · have hw : w = [] := (List.append_eq_nil_iff.mp h).1
      have hws : ws = [] := (List.append_eq_nil_iff.mp h).2
      simp [ih1.1 hw, ih2.1 hws]
    · simp only [firstSeq]
      cases w with
      | nil =>
        rw [if_pos (ih1.1 rfl)]
        show Nat.testBit (I.first x ||| firstSeq I xs am) c = true
        rw [Nat.testBit_or]
        simp [ih2.2 c rest (by simpa using h) am]
      | cons d w' =>
        have hd : d = c := by simp at h; exact h.1
        have hb := ih1.2 d w' rfl
        rw [hd] at hb
        split
        · show Nat.testBit (I.first x ||| firstSeq I xs am) c = true
          rw [Nat.testBit_or]; simp [hb]
        · exact hb
end

/-- lookahead index of a word: its first column, `ncols` at the end of input -/
def laIdx (w : List Nat) : Nat := w.headD T.ncols

theorem first_la (F : ItemFacts T I) {xs us : List Nat} (hs : YieldsSeq T xs us) (am : Nat) (v : List Nat)
    (hv : Nat.testBit am (laIdx T v) = true) : Nat.testBit (firstSeq I xs am) (laIdx T (us ++ v)) = true := by
  have h := first_seq T I F hs
  cases us with
  | nil => simpa using (firstSeq_nullable I xs am (h.1 rfl)).2 _ hv
  | cons c rest => simpa [laIdx] using h.2 c rest rfl am

/-! ### configurations from which the automaton of the tables accepts -/

def laAction (q : Nat) : Option Nat → Int
  | some c => actionAt T q c
  | none => eofActionAt T q

/-- from the state stack `σ` (top first) and the remaining token columns `w`, the automaton shifts and
    reduces its way to acceptance: no empty ACTION entry is met -/
inductive GoodCfg : List Nat → List Nat → Prop
  | acc {q : Nat} {σ : List Nat} {p : Nat} {prod : Production} :
      asReduce (eofActionAt T q) = some p → T.prods[p]? = some prod → prod.accept = true → GoodCfg (q :: σ) []
  | shift {q : Nat} {σ : List Nat} {c : Nat} {w : List Nat} {t : Nat} :
      asShift (actionAt T q c) = some t → GoodCfg (t :: q :: σ) w → GoodCfg (q :: σ) (c :: w)
  | red {q : Nat} {σ : List Nat} {w : List Nat} {p : Nat} {prod : Production} :
      asReduce (laAction T q w.head?) = some p → T.prods[p]? = some prod → prod.accept = false →
      GoodCfg (gotoOf T (((q :: σ).drop prod.pops).headD 0) prod.nt :: (q :: σ).drop prod.pops) w →
      GoodCfg (q :: σ) w

theorem asShift_ne {a : Int} {t : Nat} (h : asShift a = some t) : a ≠ 0 := by
  unfold asShift at h; split at h <;> simp_all; omega
theorem asReduce_ne {a : Int} {p : Nat} (h : asReduce a = some p) : a ≠ 0 := by
  unfold asReduce at h; split at h <;> simp_all; omega

/-- a complete item reduces on its lookahead -/
theorem reduce_of_item (F : ItemFacts T I) (q p : Nat) (prod : Production) (hp : T.prods[p]? = some prod)
    (w : List Nat) (hw : ∀ c ∈ w, c < T.ncols) (h : HasItem I q p prod.rhsIds.length (laIdx T w)) :
    asReduce (laAction T q w.head?) = some p := by
  obtain ⟨m, hm, _, hok⟩ := F.item q p _ _ h
  obtain ⟨hinfo, _, _, _⟩ := F.prod p prod hp
  unfold itemOK at hok
  simp only [hinfo, List.getElem?_eq_none (Nat.le_refl _), Bool.and_eq_true, beq_iff_eq] at hok
  have hla : laIdx T w ≤ T.ncols := by
    unfold laIdx
    cases w with
    | nil => simp
    | cons c _ => have := hw c (List.mem_cons_self ..); simp; omega
  have := (List.all_eq_true.mp hok.2) (laIdx T w) (List.mem_range.mpr (by omega))
  simp only [hm, Bool.not_true, Bool.false_or, beq_iff_eq] at this
  unfold laAct at this
  cases w with
  | nil =>
    simp only [laIdx, List.headD_nil, if_true] at this
    show asReduce (eofActionAt T q) = some p
    rw [F.eof q (asReduce_ne this)]
    exact this
  | cons c rest =>
    have hc := hw c (List.mem_cons_self ..)
    have hne : ¬ (c = T.ncols) := by omega
    simp only [laIdx, List.headD_cons, hne, if_false] at this
    show asReduce (actionAt T q c) = some p
    rw [F.act q c (asReduce_ne this)]
    exact this

theorem yields_cols : ∀ {X : Nat} {u : List Nat}, Yields T X u → ∀ c ∈ u, c < T.ncols
  | _, _, .term c hc => by intro c' hc'; simp at hc'; omega
  | _, _, .prod p prod w hp hacc hs => yieldsSeq_cols hs
where yieldsSeq_cols : ∀ {xs us : List Nat}, YieldsSeq T xs us → ∀ c ∈ us, c < T.ncols
  | _, _, .nil => by intro c hc; cases hc
  | _, _, .cons x xs w ws hy hs => by
    intro c hc
    rcases List.mem_append.mp hc with h | h
    · exact yields_cols hy c h
    · exact yieldsSeq_cols hs c h

/-! ### the automaton follows every derivation -/

/-- what `itemOK` says about an item with a symbol after the dot -/
theorem item_step (F : ItemFacts T I) (q p dot a : Nat) (prod : Production) (X : Nat)
    (hp : T.prods[p]? = some prod) (hX : prod.rhsIds[dot]? = some X) (h : HasItem I q p dot a) :
    ∃ q', delta T I q X = some q'
      ∧ subMask (lookupItem (itemsOf I q) p dot) (lookupItem (itemsOf I q') p (dot + 1)) = true
      ∧ (T.ncols ≤ X → ∀ p' ∈ I.prodsOf (X - T.ncols),
          subMask (firstSeq I (prod.rhsIds.drop (dot + 1)) (lookupItem (itemsOf I q) p dot)) (lookupItem (itemsOf I q) p' 0) = true) := by
  obtain ⟨m, _, hm, hok⟩ := F.item q p dot a h
  obtain ⟨hinfo, _, _, _⟩ := F.prod p prod hp
  unfold itemOK at hok
  simp only [hinfo, hX, Bool.and_eq_true, Bool.or_eq_true, decide_eq_true_eq] at hok
  obtain ⟨h1, h2⟩ := hok
  cases hd : delta T I q X with
  | none => rw [hd] at h1; cases h1
  | some q' =>
    rw [hd] at h1
    refine ⟨q', rfl, by rw [hm]; exact h1, ?_⟩
    intro hge p' hp'
    rcases h2 with h2 | h2
    · omega
    · rw [hm]; exact (List.all_eq_true.mp h2) p' hp'

mutual
/-- one symbol: from a state holding an item with `X` after the dot, reading a word derived from `X`
    leads to the successor state (continuation-passing: the rest of the run is given) -/
theorem follow_sym (F : ItemFacts T I) : ∀ {X : Nat} {u : List Nat}, Yields T X u →
    ∀ (q : Nat) (σ : List Nat) (p dot a : Nat) (prod : Production) (v : List Nat) (q' : Nat),
      T.prods[p]? = some prod → prod.rhsIds[dot]? = some X → HasItem I q p dot a → (∀ c ∈ v, c < T.ncols) →
      Nat.testBit (firstSeq I (prod.rhsIds.drop (dot + 1)) (lookupItem (itemsOf I q) p dot)) (laIdx T v) = true →
      delta T I q X = some q' →
      GoodCfg T (q' :: q :: σ) v → GoodCfg T (q :: σ) (u ++ v)
  | _, _, .term c hc => by
    intro q σ p dot a prod v q' hp hX hitem hv hla hd K
    unfold delta at hd
    have hlt : c < T.ncols := by omega
    rw [if_pos hlt] at hd
    have hact := F.act q c (asShift_ne hd)
    exact GoodCfg.shift (by rw [hact]; exact hd) K
  | _, _, .prod p' prod' w hp' hacc' hs => by
    intro q σ p dot a prod v q' hp hX hitem hv hla hd K
    obtain ⟨q1, hd1, _, hclos⟩ := item_step T I F q p dot a prod _ hp hX hitem
    obtain ⟨_, _, hF, _⟩ := F.prod p' prod' hp'
    obtain ⟨hmem, _, _⟩ := hF hacc'
    have hsub := hclos (by omega) p' (by simpa using hmem)
    have hitem' : HasItem I q p' 0 (laIdx T v) := subMask_bit hsub hla
    have hd' : q' = gotoOf T q prod'.nt := by
      unfold delta at hd
      have : ¬ (T.ncols + prod'.nt < T.ncols) := by omega
      rw [if_neg this] at hd
      simp only [Nat.add_sub_cancel_left, Option.some.injEq] at hd
      exact hd.symm
    refine follow_seq F hs q σ p' prod' 0 v hp' (by simp) hitem' hv (fun h => by rw [hacc'] at h; cases h) ?_
    intro _
    simp only [List.drop_zero, List.headD_cons]
    rw [← hd']
    exact K
/-- the rest of a right-hand side, then the reduction -/
theorem follow_seq (F : ItemFacts T I) : ∀ {xs us : List Nat}, YieldsSeq T xs us →
    ∀ (q : Nat) (σ : List Nat) (p : Nat) (prod : Production) (dot : Nat) (v : List Nat),
      T.prods[p]? = some prod → prod.rhsIds.drop dot = xs → HasItem I q p dot (laIdx T v) → (∀ c ∈ v, c < T.ncols) →
      (prod.accept = true → v = []) →
      (prod.accept = false →
        GoodCfg T (gotoOf T (((q :: σ).drop dot).headD 0) prod.nt :: (q :: σ).drop dot) v) →
      GoodCfg T (q :: σ) (us ++ v)
  | _, _, .nil => by
    intro q σ p prod dot v hp hdrop hitem hv hacc K
    obtain ⟨_, hpops, _, _⟩ := F.prod p prod hp
    have hdot : dot = prod.rhsIds.length ∨ prod.rhsIds.length < dot := by
      have := congrArg List.length hdrop
      simp only [List.length_drop, List.length_nil] at this
      omega
    -- an item beyond the end of the right-hand side does not exist (its `itemOK` check fails)
    have hdot' : dot = prod.rhsIds.length := by
      rcases hdot with h | h
      · exact h
      · exfalso
        obtain ⟨m, _, _, hok⟩ := F.item q p dot _ hitem
        obtain ⟨hinfo, _, _, _⟩ := F.prod p prod hp
        unfold itemOK at hok
        simp only [hinfo, List.getElem?_eq_none (Nat.le_of_lt h), Bool.and_eq_true, beq_iff_eq] at hok
        omega
    subst hdot'
    have hred := reduce_of_item T I F q p prod hp v hv hitem
    simp only [List.nil_append]
    cases hacc' : prod.accept with
    | true =>
      have := hacc hacc'
      subst this
      exact GoodCfg.acc hred hp hacc'
    | false =>
      refine GoodCfg.red hred hp hacc' ?_
      rw [hpops]
      exact K hacc'
  | _, _, .cons x xs w ws hy hs => by
    intro q σ p prod dot v hp hdrop hitem hv hacc K
    have hX : prod.rhsIds[dot]? = some x := by
      have := congrArg List.head? hdrop
      simpa [List.head?_drop] using this
    have hdrop' : prod.rhsIds.drop (dot + 1) = xs := by
      have := congrArg List.tail hdrop
      simpa [List.tail_drop] using this
    obtain ⟨q', hd, hsub, _⟩ := item_step T I F q p dot _ prod x hp hX hitem
    have hvw : ∀ c ∈ ws ++ v, c < T.ncols := by
      intro c hc
      rcases List.mem_append.mp hc with h | h
      · exact yields_cols.yieldsSeq_cols T hs c h
      · exact hv c h
    have hla : Nat.testBit (firstSeq I (prod.rhsIds.drop (dot + 1)) (lookupItem (itemsOf I q) p dot)) (laIdx T (ws ++ v)) = true := by
      rw [hdrop']
      exact first_la T I F hs _ v hitem
    rw [List.append_assoc]
    refine follow_sym F hy q σ p dot _ prod (ws ++ v) q' hp hX hitem hvw hla hd ?_
    have hitem' : HasItem I q' p (dot + 1) (laIdx T v) := subMask_bit hsub hitem
    refine follow_seq F hs q' (q :: σ) p prod (dot + 1) v hp hdrop' hitem' hv hacc ?_
    intro ha
    simpa using K ha
end

/-- **Completeness of the tables**: for every token sequence derivable from the accepting production,
    the automaton started in state 0 reads it to the end and accepts. -/
theorem derives_good (F : ItemFacts T I) (w : List Nat) (h : Derives T w) : GoodCfg T [0] w := by
  obtain ⟨p, prod, hp, hacc, hs⟩ := h
  obtain ⟨_, _, _, hstart⟩ := F.prod p prod hp
  have := follow_seq T I F hs 0 [] p prod 0 [] hp (by simp) (by simpa [laIdx] using hstart hacc)
    (by intro c hc; cases hc) (fun _ => rfl) (fun h => by rw [hacc] at h; cases h)
  simpa using this

end Aidl.Props.LrComplete
