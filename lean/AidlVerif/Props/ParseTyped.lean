import AidlVerif.Props.TypedCertA
import AidlVerif.Props.TypedCertB
import AidlVerif.Props.ParseTotal
import AidlVerif.Props.ParseSound

/-!
# C01 / C03, parse stage — for EVERY text: only the `fuelOut` stop remains, and a result
# without a tree carries an Error

`addContent_stops2` strengthens `ParseTotal.addContent_stops`: the stops of kind `shape`, `table`,
`lexical` and `acceptShape` are excluded as well, by type checking the regenerated action table
against the Rust signatures (`actions_typed`, `tables_typed`: kernel evaluation) and the typing lemma
of each hand-written action. `lexical` is the `unreachable!()` of `Direction`: the type `dtok` (a
token whose text is `in`, `out` or `inout`) is given to the DIRECTION terminal — justified by the
language of its lexer entry (`LexerLang.next_token_lang`, `dirEntryOk`) — and followed by the
translator through `DIRECTION?` into `Direction`'s action; the checker verifies that flow. `never_silent`: whenever the model's `add_content` returns a result without a
tree, that result holds an Error diagnostic.
-/

namespace Aidl.Props.ParseTyped
open Aidl Aidl.Lr Aidl.Actions Aidl.Lexer
open Aidl.Props.LrSafe Aidl.Props.LrTyped Aidl.Props.Typed Aidl.Props.ParseTotal Aidl.Props.LrInv

def Allowed2 : Stop → Prop
  | .fuelOut => True
  | _ => False

theorem hasTy_optNS_aidl {E : Prop} {v : Val} (h : HasTy E (.optNS .aidl) v) :
    (v = .none_ ∧ E) ∨ ∃ a, v = .some_ (.aidl a) ∧ ItemWF a.item := by
  rcases (hasTy_optNS E _ v).mp h with h1 | ⟨w, rfl, hw⟩
  · exact Or.inl h1
  · obtain ⟨a, rfl, ha⟩ := (hasTy_aidl E w).mp hw
    exact Or.inr ⟨a, rfl, ha⟩

/-- what `finishE` does with a typed end -/
theorem finishE_typed (env : Env) (id : String) (s : St) (o : Outcome) (ho : EndOk s o) :
    match finishE env id s o with
    | .ok r => (r.ast = none → hasError r.diags) ∧ ∀ a, r.ast = some a → ItemWF a.item
    | .error st => st ≠ .acceptShape ∧ ∀ p, st = .action p → OkKind p := by
  unfold finishE
  cases o with
  | panic m => exact ho.elim
  | actionPanic p => exact ⟨(by intro h; cases h), (by intro q hq; cases hq; exact ho)⟩
  | fuelOut => exact ⟨(by intro h; cases h), (by intro q hq; cases hq)⟩
  | accept v =>
    rcases hasTy_optNS_aidl ho.1 with ⟨rfl, he⟩ | ⟨a, rfl, ha⟩
    · exact ⟨fun _ => he, fun a h => (by cases h)⟩
    · refine ⟨fun h => (by cases h), fun a' h => ?_⟩
      cases h
      exact ha
  | error e =>
    dsimp only
    have := pur_fromParseError (env := env) e s.diags
    revert this
    cases (ReaderT.run (fromParseError e) env).run s.diags with
    | error m => exact fun hm => ⟨(by intro h; cases h), (by intro q hq; cases hq; exact hm)⟩
    | ok x =>
      obtain ⟨d, ds'⟩ := x
      rintro ⟨_, hk⟩
      exact ⟨fun _ => ⟨d, List.mem_append_right _ (List.mem_singleton.mpr rfl), hk⟩, fun a h => (by cases h)⟩

theorem kind_cases (k : PanicKind) (h1 : k ≠ .bounds) (h2 : k ≠ .shape) (h3 : k ≠ .table) (h4 : k ≠ .lexical) : False := by
  cases k <;> simp_all

/-- generic over the tables: both certificates in, both conclusions out -/
theorem addContent_typed_gen (T : Tables) (C : Cert) (TT : TyTables) (hC : C.ok T = true)
    (G : TyFacts T TT) (env : Env) (id text : String) (hE : EnvOk env text.toList) :
    match addContentE T env id text with
    | .ok r => (r.ast = none → hasError r.diags) ∧ ∀ a, r.ast = some a → ItemWF a.item
    | .error st => Allowed2 st := by
  unfold addContentE
  have F := certFacts T C hC
  have h1 := parse_outcome_good T C env F text.toList (ActionsSafe.actionsSafe T env text.toList hE) (parseFuel text)
  have h2 := parse_end_ok T C TT env F G text.toList (parseFuel text)
  have h3 := finishE_typed env id _ _ h2
  have h4 := finishE_allowed hE id (parseLoop T env { input := text.toList } (parseFuel text)).1 _ h1
    (parse_diags_good T C env F text.toList (ActionsSafe.actionsSafe T env text.toList hE) (parseFuel text))
  revert h3 h4
  cases finishE env id (parseLoop T env { input := text.toList } (parseFuel text)).1
      (parseLoop T env { input := text.toList } (parseFuel text)).2 with
  | ok r => exact fun h3 _ => h3
  | error st =>
    intro h3 h4
    have h4' := h4 st rfl
    cases st with
    | driver m => exact h4'
    | action p => exact kind_cases p.kind h4' (h3.2 p rfl).1 (h3.2 p rfl).2.1 (h3.2 p rfl).2.2
    | fuelOut => trivial
    | acceptShape => exact h3.1 rfl

theorem tyFacts_run : TyFacts Driver.Parse.tables tt := tyFacts Driver.Parse.tables tt actions_typed tables_typed rfl

/-- **For every text** (tables and certificates of this run): `add_content` returns, or stops with
    `fuelOut` — nothing else (and `ParseTerm.addContent_total` excludes `fuelOut`). -/
theorem addContent_stops2 (env : Env) (id text : String) (hE : EnvOk env text.toList) (st : Stop)
    (h : addContentE Driver.Parse.tables env id text = .error st) : Allowed2 st := by
  have := addContent_typed_gen Driver.Parse.tables cert tt cert_ok tyFacts_run env id text hE
  rw [h] at this
  exact this

/-- **Failure is never silent (C03), for every text**: a result without a tree holds an Error. -/
theorem never_silent (env : Env) (id text : String) (hE : EnvOk env text.toList) (r : FileResult)
    (h : addContentE Driver.Parse.tables env id text = .ok r) (hnone : r.ast = none) : hasError r.diags := by
  have := addContent_typed_gen Driver.Parse.tables cert tt cert_ok tyFacts_run env id text hE
  rw [h] at this
  exact this.1 hnone

/-- **For every text**: the generic types of a returned tree have the arities validation relies on
    (an array has its element, a list at most one parameter, a map none or two) — at every depth. -/
theorem tree_arities (env : Env) (id text : String) (hE : EnvOk env text.toList) (r : FileResult) (a : AidlFile)
    (h : addContentE Driver.Parse.tables env id text = .ok r) (ha : r.ast = some a) : ItemWF a.item := by
  have := addContent_typed_gen Driver.Parse.tables cert tt cert_ok tyFacts_run env id text hE
  rw [h] at this
  exact this.2 a ha


/-- what `finishE` returns with a tree: the run accepted, and the result's diagnostics are the state's -/
theorem finishE_tree (env : Env) (id : String) (s : St) (o : Outcome) (r : FileResult)
    (h : finishE env id s o = .ok r) (ht : r.ast.isSome = true) : (∃ v, o = .accept v) ∧ r.diags = s.diags := by
  unfold finishE at h
  cases o with
  | panic m => cases h
  | actionPanic p => cases h
  | fuelOut => cases h
  | accept v =>
    dsimp only at h
    split at h
    · cases h; cases ht
    · cases h; exact ⟨⟨_, rfl⟩, rfl⟩
    · cases h
  | error e =>
    dsimp only at h
    split at h
    · cases h
    · cases h; cases ht

/-- generic over the tables -/
theorem accepted_clean_derives_gen (T : Tables) (C : Cert) (TT : TyTables) (hC : C.ok T = true) (G : TyFacts T TT)
    (hcols : LrSound.ColsOk T) (env : Env) (id text : String) (r : FileResult)
    (h : addContentE T env id text = .ok r) (ht : r.ast.isSome = true) (hno : ¬ hasError r.diags) :
    LrSound.Derives T (parseLoop T env { input := text.toList } (parseFuel text)).1.hist := by
  unfold addContentE at h
  have F := certFacts T C hC
  obtain ⟨⟨v, hv⟩, hd⟩ := finishE_tree env id _ _ r h ht
  have h2 := parse_end_ok T C TT env F G text.toList (parseFuel text)
  rw [hv] at h2
  have hrec : (parseLoop T env { input := text.toList } (parseFuel text)).1.recovered = false := by
    cases hr : (parseLoop T env { input := text.toList } (parseFuel text)).1.recovered with
    | false => rfl
    | true => exact absurd (by rw [hd]; exact h2.2 hr) hno
  exact LrSound.accepted_derives T C env F hcols text.toList (parseFuel text) v hv hrec

/-- **Syntax verdicts are sound with respect to the grammar (C03), for every text**: when the model's
    `add_content` returns a tree and no Error diagnostic, the sequence of tokens the driver shifted is
    derivable from the accepting production of the grammar extracted from the generated parser —
    error recovery cannot have run, because every production over `error` reports an Error. -/
theorem accepted_clean_derives (env : Env) (id text : String) (r : FileResult)
    (h : addContentE Driver.Parse.tables env id text = .ok r) (ht : r.ast.isSome = true) (hno : ¬ hasError r.diags) :
    LrSound.Derives Driver.Parse.tables
      (parseLoop Driver.Parse.tables env { input := text.toList } (parseFuel text)).1.hist :=
  accepted_clean_derives_gen Driver.Parse.tables cert tt cert_ok tyFacts_run ParseSound.colsOk_run env id text r h ht hno

end Aidl.Props.ParseTyped
