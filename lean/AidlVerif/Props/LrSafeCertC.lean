import AidlVerif.Props.LrSafeCertDefs
namespace Aidl.Props.LrSafe
open Aidl Aidl.Lr
set_option maxRecDepth 1000000 in
theorem reds_ok : Cert.redsOK Driver.Parse.tables cert = true := by decide +kernel
end Aidl.Props.LrSafe
