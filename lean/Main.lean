import AidlVerif.Driver.Run

def main (args : List String) : IO UInt32 := Aidl.Driver.main args
