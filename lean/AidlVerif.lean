import AidlVerif.Model.Ast
import AidlVerif.Model.Traverse
import AidlVerif.Model.Validation
